"""Exponent counting for "Kronecker power by repeated squaring" helpers (tensor.fast_exp).

Every matrix-valued expression is abstracted to the number of tensor factors of the base it contains (a polynomial over
symbols); np.kron adds exponents.  The exponent parameter q is written q = 2h + b with b in {0, 1} (b*b == b), so
`q >> 1` / `q // 2` is h and the test `q & 1` / `q % 2` is b.  Two program shapes are verified:

  recursive   f(M, q): base case q == 1 -> M ; induction hypothesis f(M, e) has exponent e for the recursive call;
              every return must have exponent q on its path.
  iterative   while-loop that squares one variable and halves q: the quantity  I = sum(accumulators) + square * q  must be
              preserved by the body (verification condition checked as a polynomial identity), hold initially with value
              q0, and make the returned expression equal to q0 at the exit value of q.

The result is (True | False | None, explanation).  False is only reported when the shape is recognised (squaring and
halving present / recursive call on q >> 1) and a specific step breaks the count; anything else is None (unknown)."""

from __future__ import annotations

import ast
from fractions import Fraction


class Poly:
    """sparse polynomial: {tuple(sorted((sym, power))): coef}; the symbol 'b' is idempotent."""

    def __init__(self, d=None):
        self.d = {k: v for k, v in (d or {}).items() if v != 0}

    @staticmethod
    def const(c):
        return Poly({(): Fraction(c)})

    @staticmethod
    def sym(s):
        return Poly({((s, 1),): Fraction(1)})

    def __add__(self, o):
        d = dict(self.d)
        for k, v in o.d.items():
            d[k] = d.get(k, 0) + v
        return Poly(d)

    def __neg__(self):
        return Poly({k: -v for k, v in self.d.items()})

    def __sub__(self, o):
        return self + (-o)

    def __mul__(self, o):
        d = {}
        for k1, v1 in self.d.items():
            for k2, v2 in o.d.items():
                m = dict(k1)
                for s, p in k2:
                    m[s] = m.get(s, 0) + p
                if "b" in m:
                    m["b"] = 1
                k = tuple(sorted(m.items()))
                d[k] = d.get(k, 0) + v1 * v2
        return Poly(d)

    def subs(self, s, val: "Poly"):
        out = Poly()
        for k, v in self.d.items():
            term = Poly.const(v)
            for sym, p in k:
                base = val if sym == s else Poly.sym(sym)
                for _ in range(p):
                    term = term * base
            out = out + term
        return out

    def is_zero(self):
        return not self.d

    def __eq__(self, o):
        return (self - o).is_zero()

    def __repr__(self):
        if not self.d:
            return "0"
        parts = []
        for k, v in sorted(self.d.items()):
            mono = "*".join(f"{s}^{p}" if p != 1 else s for s, p in k)
            parts.append(f"{v}" + (f"*{mono}" if mono else "") if v != 1 or not mono else mono)
        return " + ".join(parts)


H, B = Poly.sym("h"), Poly.sym("b")
Q = Poly.const(2) * H + B


class Unknown(Exception):
    pass


def _is_bit_test(t, q):
    """-> True if `t` is true exactly when the low bit of q is set, False if exactly when it is clear, None otherwise"""
    if isinstance(t, ast.BinOp) and isinstance(t.left, ast.Name) and t.left.id == q and isinstance(t.right, ast.Constant):
        if isinstance(t.op, ast.BitAnd) and t.right.value == 1:
            return True
        if isinstance(t.op, ast.Mod) and t.right.value == 2:
            return True
    if isinstance(t, ast.Compare) and len(t.ops) == 1 and isinstance(t.comparators[0], ast.Constant):
        inner = _is_bit_test(t.left, q)
        c = t.comparators[0].value
        if inner is True and isinstance(t.ops[0], ast.Eq):
            return True if c == 1 else False if c == 0 else None
        if inner is True and isinstance(t.ops[0], ast.NotEq):
            return False if c == 1 else True if c == 0 else None
    if isinstance(t, ast.UnaryOp) and isinstance(t.op, ast.Not):
        inner = _is_bit_test(t.operand, q)
        return None if inner is None else not inner
    return None


def _half(e, q):
    """is the integer expression `e` equal to q >> 1 ?"""
    return isinstance(e, ast.BinOp) and isinstance(e.left, ast.Name) and e.left.id == q and isinstance(e.right, ast.Constant) and \
        ((isinstance(e.op, ast.RShift) and e.right.value == 1) or (isinstance(e.op, ast.FloorDiv) and e.right.value == 2))


class Interp:
    def __init__(self, fname, base, q):
        self.fname, self.base, self.q = fname, base, q

    def ev(self, e, st):
        if isinstance(e, ast.Name):
            if e.id in st:
                return st[e.id]
            raise Unknown(f"name {e.id}")
        if isinstance(e, ast.Constant) and e.value is None:
            return Poly.const(0)
        if isinstance(e, ast.Call):
            fn = e.func
            nm = fn.attr if isinstance(fn, ast.Attribute) else fn.id if isinstance(fn, ast.Name) else ""
            if nm == "kron" and len(e.args) == 2:
                return self.ev(e.args[0], st) + self.ev(e.args[1], st)
            if nm == self.fname and len(e.args) + len(e.keywords) == 2:
                kw = {k.arg: k.value for k in e.keywords}
                pos = list(e.args)
                a_base = pos[0] if pos else kw.get(self.base)
                a_exp = pos[1] if len(pos) > 1 else kw.get(self.q)
                if a_base is None or a_exp is None:
                    raise Unknown("recursive call arguments")
                e = ast.Call(func=e.func, args=[a_base, a_exp], keywords=[])
                b = self.ev(e.args[0], st)
                if not (b == Poly.const(1)):
                    raise Unknown("recursive call on another base")
                if _half(e.args[1], self.q):
                    return H  # induction hypothesis
                if isinstance(e.args[1], ast.BinOp) and isinstance(e.args[1].op, ast.Sub) and isinstance(e.args[1].left, ast.Name) and e.args[1].left.id == self.q \
                        and isinstance(e.args[1].right, ast.Constant) and e.args[1].right.value == 1:
                    return st["@q"] - Poly.const(1)
                raise Unknown("recursive call exponent")
            raise Unknown(f"call {nm}")
        if isinstance(e, ast.IfExp):
            t = e.test
            if isinstance(t, ast.Compare) and len(t.ops) == 1 and isinstance(t.left, ast.Name) and isinstance(t.comparators[0], ast.Constant) and t.comparators[0].value is None:
                v = t.left.id
                a, b_ = (e.body, e.orelse) if isinstance(t.ops[0], ast.Is) else (e.orelse, e.body)  # a: when v is None
                pa, pb = self.ev(a, dict(st, **{v: Poly.const(0)})), self.ev(b_, st)
                # with exponent(v) == 0 the two arms must agree, then the not-None arm describes both
                cur = st[v]
                sy = [s for k in cur.d for s, _ in k]
                pb0 = pb
                for s in set(sy):
                    pb0 = pb0.subs(s, Poly.const(0))
                if cur.is_zero():
                    return pa
                if pa == pb0 or len(set(sy)) == 1:
                    return pb if pa == pb0 else (_ for _ in ()).throw(Unknown("None-arm differs"))
                raise Unknown("conditional on None")
            raise Unknown("conditional expression")
        raise Unknown(type(e).__name__)

    def run_block(self, stmts, st, returns):
        """executes statements; returns the state or None when every path returned"""
        for s in stmts:
            if st is None:
                return None
            st = self.run_stmt(s, st, returns)
        return st

    def run_stmt(self, s, st, returns):
        q = self.q
        if isinstance(s, ast.Expr) and isinstance(s.value, ast.Constant):
            return st
        if isinstance(s, ast.Return):
            returns.append((self.ev(s.value, st), dict(st), s))
            return None
        if isinstance(s, ast.Assign) and len(s.targets) == 1 and isinstance(s.targets[0], ast.Name):
            t = s.targets[0].id
            if t == q:
                if _half(s.value, q):
                    return dict(st, **{"@q": H, "@halved": Poly.const(1)})
                raise Unknown("assignment to the exponent")
            return dict(st, **{t: self.ev(s.value, st)})
        if isinstance(s, ast.AugAssign) and isinstance(s.target, ast.Name) and s.target.id == q:
            if (isinstance(s.op, ast.RShift) and isinstance(s.value, ast.Constant) and s.value.value == 1) or \
                    (isinstance(s.op, ast.FloorDiv) and isinstance(s.value, ast.Constant) and s.value.value == 2):
                return dict(st, **{"@q": H, "@halved": Poly.const(1)})
            raise Unknown("update of the exponent")
        if isinstance(s, ast.If):
            bit = _is_bit_test(s.test, q)
            if bit is not None and "@halved" not in st:
                a = self.run_block(s.body, dict(st), returns)
                c = self.run_block(s.orelse, dict(st), returns)
                if a is None or c is None:
                    raise Unknown("return inside a parity branch")
                w = B if bit else Poly.const(1) - B
                out = {}
                for k in set(a) | set(c):
                    if k in a and k in c:
                        out[k] = w * a[k] + (Poly.const(1) - w) * c[k]
                return out
            # q == 1 base case
            t = s.test
            if isinstance(t, ast.Compare) and len(t.ops) == 1 and isinstance(t.ops[0], ast.Eq) and not s.orelse and \
                    ((isinstance(t.left, ast.Name) and t.left.id == q and isinstance(t.comparators[0], ast.Constant) and t.comparators[0].value == 1) or
                     (isinstance(t.comparators[0], ast.Name) and t.comparators[0].id == q and isinstance(t.left, ast.Constant) and t.left.value == 1)):
                base_rets = []
                self.run_block(s.body, dict(st, **{"@q": Poly.const(1)}), base_rets)
                for r in base_rets:
                    returns.append((r[0], dict(r[1], **{"@base": Poly.const(1)}), r[2]))
                return st
            raise Unknown("branch condition")
        raise Unknown(type(s).__name__)


def check_power_by_squaring(fn: ast.FunctionDef):
    """fn(base, q) -> (ok, detail)"""
    if len(fn.args.args) != 2:
        return None, "helper does not take (matrix, exponent)"
    base, q = fn.args.args[0].arg, fn.args.args[1].arg
    ip = Interp(fn.name, base, q)
    loops = [s for s in fn.body if isinstance(s, ast.While)]
    try:
        if not loops:
            rets = []
            st = ip.run_block(fn.body, {base: Poly.const(1), "@q": Q}, rets)
            if st is not None:
                return None, "falls off the end"
            if not rets:
                return None, "no return"
            has_rec = any(isinstance(n, ast.Call) and isinstance(n.func, ast.Name) and n.func.id == fn.name for n in ast.walk(fn))
            for val, s_, node in rets:
                want = Poly.const(1) if "@base" in s_ else Q
                if not (val == want):
                    if not has_rec:
                        return None, "no recursive call recognised"
                    return False, (f"line {node.lineno}: the returned product has {val} tensor factors where q = 2h + b requires {want} "
                                   "(h = q >> 1 factors from the recursive call by the induction hypothesis, b = low bit of q)")
            return True, f"recursive squaring: base case q == 1 returns the matrix; {len(rets) - 1} inductive return(s) have exponent 2*(q>>1) + (q&1) == q"
        if len(loops) != 1:
            return None, "more than one loop"
        lp = loops[0]
        i = fn.body.index(lp)
        pre = ip.run_block(fn.body[:i], {base: Poly.const(1), "@q": Poly.sym("q0")}, [])
        if pre is None:
            return None, "returns before the loop"
        mats = [k for k in pre if not k.startswith("@")]
        head = {"@q": Q}
        for v in mats:
            head[v] = Poly.sym("x_" + v)
        body_rets = []
        out = ip.run_block(lp.body, dict(head), body_rets)
        if out is None or body_rets:
            return None, "return inside the loop"
        if "@halved" not in out:
            return None, "the loop does not halve the exponent"
        sq = [v for v in mats if v in out and out[v] == Poly.const(2) * head[v]]
        if len(sq) != 1:
            return None, "no variable is squared (kron with itself) once per iteration"
        p = sq[0]
        assigned = {t.id for n in ast.walk(lp) if isinstance(n, ast.Assign) for t in n.targets if isinstance(t, ast.Name)}
        acc = [v for v in mats if v != p and v in assigned]
        inv = lambda s_: sum((s_[v] for v in acc), Poly.const(0)) + s_[p] * s_["@q"]  # noqa: E731
        diff = inv(out) - inv(head)
        if not diff.is_zero():
            culprit = [v for v in acc if not (out[v] == head[v] + B * head[p])]
            return False, (f"loop at line {lp.lineno}: with `{p}` squared and `{q}` halved every iteration, the count  sum(accumulators) + exp({p})*{q}  must stay equal to the "
                           f"requested power, but one iteration changes it by {diff}"
                           + (f"; `{culprit[0]}` becomes {out[culprit[0]]} instead of x_{culprit[0]} + b*x_{p} (the factor kept when the low bit is set replaces, "
                              "rather than multiplies, what was kept before)" if culprit else ""))
        init = inv(pre)
        if not (init == Poly.sym("q0")):
            return False, f"before the loop the count is {init}, not the requested power q0"
        # exit value of q
        t = lp.test
        exit_q = None
        if isinstance(t, ast.Name) and t.id == q:
            exit_q = 0
        elif isinstance(t, ast.Compare) and len(t.ops) == 1 and isinstance(t.left, ast.Name) and t.left.id == q and isinstance(t.comparators[0], ast.Constant):
            c = t.comparators[0].value
            if isinstance(t.ops[0], ast.Gt):
                exit_q = c
            elif isinstance(t.ops[0], ast.GtE):
                exit_q = c - 1
            elif isinstance(t.ops[0], ast.NotEq):
                exit_q = c
        if exit_q is None and isinstance(t, ast.Compare) and len(t.ops) == 1 and isinstance(t.comparators[0], ast.Name) and t.comparators[0].id == q and isinstance(t.left, ast.Constant):
            c = t.left.value  # c < q  is  q > c
            if isinstance(t.ops[0], ast.Lt):
                exit_q = c
            elif isinstance(t.ops[0], ast.LtE):
                exit_q = c - 1
            elif isinstance(t.ops[0], ast.NotEq):
                exit_q = c
        if exit_q not in (0, 1):
            return None, "loop exit value of the exponent not recognised"
        post = dict(head)
        post["@q"] = Poly.const(exit_q)
        rets = []
        ip.run_block(fn.body[i + 1:], post, rets)
        if not rets:
            return None, "no return after the loop"
        want = inv(post)
        for val, _s, node in rets:
            if not (val == want):
                return False, f"line {node.lineno}: returns a product with {val} factors; at loop exit ({q} == {exit_q}) the invariant leaves {want}"
        return True, f"iterative squaring: invariant sum({acc}) + exp({p})*{q} == q0 holds initially, is preserved by the body and gives the returned product at {q} == {exit_q}"
    except Unknown as exc:
        return None, f"shape not recognised ({exc})"
    except (KeyError, RecursionError) as exc:
        return None, f"shape not recognised ({type(exc).__name__} {exc})"
