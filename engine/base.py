"""R-BASE: index-base typing (0-based vs 1-based subsystem indices)."""

from __future__ import annotations

import ast

from .model import DEFAULT, MISSING, FunctionInfo, unparse
from .norm import Normalizer, show
from .rules import calls_from, value_at

B0, B1 = "Base0", "Base1"

# formal parameters carrying subsystem indices, by (function name, parameter) -- DESIGN Appendix A.3
FORMAL_BASE = {
    ("swap", "sys"): B1, ("partial_channel", "sys"): B1, ("kraus_to_choi", "sys"): B1, ("is_ppt", "sys"): B1,
    ("is_npt", "sys"): B1, ("is_trace_preserving", "sys"): B1, ("perm_sign", "perm"): B1,
    ("permute_systems", "perm"): B0, ("permutation_operator", "perm"): B0, ("partial_trace", "sys"): B0,
    ("partial_transpose", "sys"): B0,
}
LIB_FORMAL_BASE = {"picos.partial_trace": ("subsystems", 1, B0), "picos.partial_transpose": ("subsystems", 1, B0)}


def _shift(b, k):
    if b is None or not isinstance(b, str) or not b.startswith("Base") or b == "mixed":
        return None
    try:
        n = int(b[4:])
    except ValueError:
        return None
    return f"Base{n + k}"


def _join(bs):
    bs = [b for b in bs if b is not None]
    if not bs:
        return None
    if all(b == bs[0] for b in bs):
        return bs[0]
    return "mixed"


class BaseEval:
    def __init__(self, model, f: FunctionInfo):
        self.model = model
        self.f = f
        self.N = Normalizer(model, f, inline=False)
        self.depth = 0

    def base_of(self, node: ast.AST, at=None):
        return self._b(self.N(node), at or node)

    def _loop_var_base(self, name):
        """Name bound by `for name in range(...)` / comprehension over range."""
        for n in ast.walk(self.f.node):
            tgt = it = None
            if isinstance(n, (ast.For, ast.comprehension)):
                tgt, it = n.target, n.iter
            if tgt is None:
                continue
            names = [x.id for x in ast.walk(tgt) if isinstance(x, ast.Name)]
            if name in names and isinstance(tgt, ast.Name):
                return self._b(("elem_of", self.N(it)), n)
        return None

    def _b(self, t, at):  # noqa: C901
        self.depth += 1
        try:
            if self.depth > 12 or not isinstance(t, tuple) or not t:
                return None
            h = t[0]
            if h == "c":
                if t[1] == 0 and not isinstance(t[1], bool):
                    return B0
                return None
            if h == "n":
                name = t[1]
                fb = FORMAL_BASE.get((self.f.name, name))
                if fb is not None and self.f.param(name) is not None:
                    # the parameter itself, unless it was rebound to a converted value before this point
                    v = value_at(self.model, self.f, name, at, self.N) if at is not None else None
                    if v is None or v == t:
                        return fb
                    if isinstance(v, tuple) and v != t:
                        # substitute: value expressed in terms of the original parameter
                        return self._b_param_expr(v, name, fb, at)
                    return fb
                lb = self._loop_var_base(name)
                if lb is not None:
                    return lb
                v = value_at(self.model, self.f, name, at, self.N) if at is not None else None
                if v is not None and v != t:
                    return self._b(v, None)
                return None
            if h == "elem_of":
                x = t[1]
                if x[0] == "call" and x[1] == "builtins.range":
                    if len(x[2]) == 1:
                        return B0
                    if len(x[2]) >= 2 and x[2][0] == ("c", 0):
                        return B0
                    if len(x[2]) >= 2 and x[2][0] == ("c", 1):
                        return None
                    return None
                if x[0] == "call" and x[1] in ("builtins.enumerate",):
                    return None
                return self._b(x, at)
            if h == "+":
                consts = [x for x in t[1] if x[0] == "c" and isinstance(x[1], int)]
                rest = [x for x in t[1] if x not in consts]
                if len(rest) == 1 and len(consts) == 1:
                    # arithmetic on a loop counter is index computation (offsets), not a base conversion
                    if rest[0][0] == "n" and FORMAL_BASE.get((self.f.name, rest[0][1])) is None and self._loop_var_base(rest[0][1]) is not None:
                        return None
                    if rest[0][0] == "b":
                        r0 = getattr(self, "benv_src", {}).get(rest[0][1])
                        if r0 == "loop":
                            return None
                    b = self._b(rest[0], at)
                    k = consts[0][1]
                    return _shift(b, k)
                return None
            if h in ("list", "tuple"):
                return _join([self._b(x, at) for x in t[1:]]) if len(t) > 1 else None
            if h == "call":
                if t[1] in ("numpy.array", "numpy.asarray", "builtins.list", "builtins.tuple", "builtins.sorted") and t[2]:
                    return self._b(t[2][0], at)
                if t[1] == "builtins.range":
                    return self._b(("elem_of", t), at)
                if t[1] in ("numpy.arange",) and len(t[2]) == 1:
                    return B0
                if t[1] == "numpy.argsort":
                    return B0
                if t[1] in ("itertools.permutations", "itertools.combinations", "itertools.product") and t[2]:
                    return self._b(t[2][0], at)
                return None
            if h == "comp":
                # [f(x) for x in seq]: base of f(x) with x carrying the element base of seq
                if len(t[3]) == 1 and len(t[2]) == 1 and not t[3][0][2]:
                    tgt, it, _ = t[3][0]
                    eb = self._b(("elem_of", it), at)
                    if tgt[0] == "b" and eb is not None:
                        self.benv = getattr(self, "benv", {})
                        self.benv_src = getattr(self, "benv_src", {})
                        self.benv_src[tgt[1]] = "loop" if (it[0] == "call" and it[1] == "builtins.range") else "seq"
                        self.benv[tgt[1]] = eb
                        try:
                            return self._b(t[2][0], at)
                        finally:
                            self.benv.pop(tgt[1], None)
                return None
            if h == "b":
                return getattr(self, "benv", {}).get(t[1])
            if h == "ifexp":
                return _join([self._b(t[2], at), self._b(t[3], at)])
            if h == "sub":
                return self._b(t[1], at)
            return None
        finally:
            self.depth -= 1

    def _b_param_expr(self, v, pname, fb, at):
        # v is an expression over ('n', pname) meaning the ORIGINAL parameter
        def rec(t):
            if t == ("n", pname):
                return fb
            if t[0] == "+":
                consts = [x for x in t[1] if x[0] == "c" and isinstance(x[1], int)]
                rest = [x for x in t[1] if x not in consts]
                if len(rest) == 1 and len(consts) == 1:
                    return _shift(rec(rest[0]), consts[0][1])
                return None
            if t[0] == "call" and t[1] in ("numpy.array", "numpy.asarray", "builtins.list") and t[2]:
                return rec(t[2][0])
            if t[0] in ("list", "tuple") and len(t) > 1:
                return _join([rec(x) for x in t[1:]])
            return None
        return rec(v)


def _literal_ints(a):
    """[1, 2] / (1, 2) / 2 -> list of ints; None when any element is not an int literal"""
    if isinstance(a, ast.Constant) and isinstance(a.value, int) and not isinstance(a.value, bool):
        return [a.value]
    if isinstance(a, (ast.List, ast.Tuple)) and a.elts and all(isinstance(e, ast.Constant) and isinstance(e.value, int) and not isinstance(e.value, bool) for e in a.elts):
        return [e.value for e in a.elts]
    return None


def check_call_bases(ctx, f: FunctionInfo, callee_short: str, formal: str, rule="R-BASE", required=False):
    """At every call f -> callee, the base of the actual bound to `formal` must equal the formal's base."""
    model = ctx.model
    want = FORMAL_BASE.get((callee_short.split(".")[-1], formal))
    ev = BaseEval(model, f)
    n = 0
    for c, cal in calls_from(model, f, callee_short):
        b = model.bind(c, cal.func)
        a = b.get(formal)
        key = f"{callee_short.split('.')[-1]}.{formal}:{want}"
        if a is DEFAULT or a is MISSING or a is None:
            continue
        n += 1
        got = ev.base_of(a, c)
        lit = _literal_ints(a)
        if got is None and lit is not None and want in ("Base0", "Base1"):
            # a literal cannot be typed, but it can be range-checked against the callee's base and the number of listed subsystems
            dims = b.get("dim")
            n_sub = len(dims.elts) if isinstance(dims, (ast.List, ast.Tuple)) and not any(isinstance(e, ast.Starred) for e in dims.elts) else None
            lo = 1 if want == "Base1" else 0
            hi = None if n_sub is None else n_sub - 1 + lo
            bad = [v for v in lit if v < lo or (hi is not None and v > hi)]
            if bad:
                ctx.ob(rule, f, key, False, f"literal `{unparse(a)[:40]}`: {bad[0]} is outside the {want} range {lo}..{hi if hi is not None else 'n'} of `{formal}` of {callee_short.split('.')[-1]}"
                       + (f" ({n_sub} subsystems listed in `{unparse(dims)[:40]}`)" if n_sub is not None else ""), c)
            elif hi is not None or want == "Base1":
                ctx.ob(rule, f, key, True, f"literal `{unparse(a)[:40]}` lies in the {want} range {lo}..{hi if hi is not None else 'n'}", c)
            else:
                ctx.ob(rule, f, key, None, f"literal `{unparse(a)[:40]}`: number of subsystems not literal, range not checkable", c, required=False)
        elif got is None:
            ctx.ob(rule, f, key, None, f"base of `{unparse(a)[:50]}` not determined", c, required=False)
        elif got == want:
            ctx.ob(rule, f, key, True, f"`{unparse(a)[:50]}` is {got}", c)
        else:
            ctx.ob(rule, f, key, False,
                   f"`{unparse(a)[:60]}` is {got} but `{formal}` of {callee_short.split('.')[-1]} is {want}", c)
    return n
