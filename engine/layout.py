"""R-LAYOUT helpers: reshape sites, order literals, reversal detection."""

from __future__ import annotations

import ast

from .model import FunctionInfo, calls_in
from .norm import Normalizer, subterms


def reshape_sites(model, f: FunctionInfo):
    """All reshape / ravel / flatten sites in f: dict(node, kind, arr, shape (list of ast), order)."""
    out = []
    for c in calls_in(f.node):
        kind = None
        arr = None
        shape = []
        if isinstance(c.func, ast.Attribute) and c.func.attr in ("reshape", "ravel", "flatten"):
            cal = model.resolve_call(f, c)
            if cal.kind == "lib" and cal.lib in ("numpy.reshape", "numpy.ravel"):
                kind = cal.lib.split(".")[-1]
                arr = c.args[0] if c.args else None
                shape = list(c.args[1:2])
            elif cal.kind == "lib" and cal.lib.startswith("cvxpy."):
                kind = "cvxpy." + c.func.attr
                arr = c.args[0] if c.args else None
                shape = list(c.args[1:2])
            else:
                kind = c.func.attr
                arr = c.func.value
                shape = list(c.args)
        else:
            cal = model.resolve_call(f, c)
            if cal.kind == "lib" and cal.lib in ("numpy.reshape", "numpy.ravel", "cvxpy.reshape"):
                kind = cal.lib.split(".")[-1]
                arr = c.args[0] if c.args else None
                shape = list(c.args[1:2])
        if kind is None:
            continue
        order = None
        for kw in c.keywords:
            if kw.arg == "order":
                order = kw.value.value if isinstance(kw.value, ast.Constant) else "?"
            if kw.arg in ("newshape", "shape") and not shape:
                shape = [kw.value]
        if order is None:
            # positional order: np.reshape(a, shape, 'F') / a.reshape(shape, 'F') not used in repo
            order = "C"
        out.append({"node": c, "kind": kind, "arr": arr, "shape": shape, "order": order})
    return out


def has_reversal(term) -> bool:
    """Does the term reverse a sequence ([::-1], reversed(), np.flip)?"""
    for s in subterms(term):
        if isinstance(s, tuple) and s and s[0] == "slice" and len(s) == 4 and s[3] == ("c", -1):
            return True
        if isinstance(s, tuple) and s and s[0] == "call" and s[1] in ("builtins.reversed", "numpy.flip", "numpy.flipud",
                                                                      "numpy.fliplr"):
            return True
    return False


def count_reversals(term) -> int:
    n = 0
    for s in subterms(term):
        if isinstance(s, tuple) and s and s[0] == "slice" and len(s) == 4 and s[3] == ("c", -1):
            n += 1
        if isinstance(s, tuple) and s and s[0] == "call" and s[1] in ("builtins.reversed", "numpy.flip"):
            n += 1
    return n
