"""Origin (def-use) analysis: which parameters / self attributes an expression derives from."""

from __future__ import annotations

import ast

from .model import FunctionInfo, walk_no_nested

_cache: dict[int, "Origins"] = {}


class Origins:
    """Flow-insensitive transitive def-use: name -> set of source names (params, 'self.attr') that
    may flow into it through assignments in this function (including control-independent data
    dependence only)."""

    def __init__(self, f: FunctionInfo):
        self.f = f
        self.params = [p.name for p in f.params]
        self.deps: dict[str, set[str]] = {}
        self._build()

    @staticmethod
    def names_in(node) -> set[str]:
        out = set()
        if node is None:
            return out
        for n in ast.walk(node):
            if isinstance(n, ast.Name) and isinstance(n.ctx, ast.Load):
                out.add(n.id)
            elif isinstance(n, ast.Attribute) and isinstance(n.value, ast.Name) and n.value.id == "self":
                out.add("self." + n.attr)
        return out

    def _targets(self, t) -> list[str]:
        if isinstance(t, ast.Name):
            return [t.id]
        if isinstance(t, (ast.Tuple, ast.List)):
            out = []
            for e in t.elts:
                out += self._targets(e)
            return out
        if isinstance(t, ast.Starred):
            return self._targets(t.value)
        if isinstance(t, ast.Subscript):
            base = t
            while isinstance(base, (ast.Subscript, ast.Attribute)):
                base = base.value
            if isinstance(base, ast.Name):
                return [base.id]
        if isinstance(t, ast.Attribute) and isinstance(t.value, ast.Name) and t.value.id == "self":
            return ["self." + t.attr]
        return []

    def _build(self):
        edges: dict[str, set[str]] = {}

        def add(tg, srcs):
            for t in tg:
                edges.setdefault(t, set()).update(srcs)

        def visit(n, ctrl):
            """ctrl: names in the branch / loop conditions governing this statement (control dependence)."""
            if isinstance(n, (ast.FunctionDef, ast.AsyncFunctionDef, ast.ClassDef)) and n is not self.f.node:
                return
            if isinstance(n, ast.Assign):
                srcs = self.names_in(n.value) | ctrl
                for t in n.targets:
                    tg = self._targets(t)
                    extra = set()
                    if isinstance(t, ast.Subscript):
                        extra = self.names_in(t.slice)
                    add(tg, srcs | extra)
            elif isinstance(n, ast.AnnAssign) and n.value is not None:
                add(self._targets(n.target), self.names_in(n.value) | ctrl)
            elif isinstance(n, ast.AugAssign):
                add(self._targets(n.target), self.names_in(n.value) | ctrl)
            elif isinstance(n, ast.NamedExpr):
                add(self._targets(n.target), self.names_in(n.value) | ctrl)
            elif isinstance(n, ast.comprehension):
                add(self._targets(n.target), self.names_in(n.iter))
            elif isinstance(n, ast.With):
                for it in n.items:
                    if it.optional_vars is not None:
                        add(self._targets(it.optional_vars), self.names_in(it.context_expr) | ctrl)
            elif isinstance(n, ast.Expr) and isinstance(n.value, ast.Call):
                c = n.value
                if isinstance(c.func, ast.Attribute) and c.func.attr in ("append", "extend", "insert", "update", "add"):
                    base = c.func.value
                    while isinstance(base, (ast.Subscript, ast.Attribute)):
                        base = base.value
                    if isinstance(base, ast.Name):
                        srcs = set(ctrl)
                        for a in c.args:
                            srcs |= self.names_in(a)
                        add([base.id], srcs)
            # recurse with updated control context
            if isinstance(n, ast.If):
                c2 = ctrl | self.names_in(n.test)
                visit(n.test, ctrl)
                for s in n.body + n.orelse:
                    visit(s, c2)
                return
            if isinstance(n, (ast.For, ast.AsyncFor)):
                add(self._targets(n.target), self.names_in(n.iter) | ctrl)
                c2 = ctrl | self.names_in(n.iter)
                for s in n.body + n.orelse:
                    visit(s, c2)
                return
            if isinstance(n, ast.While):
                c2 = ctrl | self.names_in(n.test)
                for s in n.body + n.orelse:
                    visit(s, c2)
                return
            if isinstance(n, ast.IfExp):
                visit(n.test, ctrl)
                visit(n.body, ctrl)
                visit(n.orelse, ctrl)
                return
            for ch in ast.iter_child_nodes(n):
                visit(ch, ctrl)

        for st in self.f.node.body:
            visit(st, set())
        # transitive closure
        self.deps = {k: set(v) for k, v in edges.items()}
        changed = True
        while changed:
            changed = False
            for k, v in self.deps.items():
                new = set(v)
                for s in list(v):
                    if s in self.deps and s != k:
                        new |= self.deps[s]
                if new != v:
                    self.deps[k] = new
                    changed = True

    def of_names(self, names: set[str]) -> set[str]:
        out = set(names)
        for n in names:
            out |= self.deps.get(n, set())
        return out

    def of(self, node) -> set[str]:
        """All names (locals, params, self.attr) that may flow into the expression."""
        return self.of_names(self.names_in(node))

    def derives_from(self, node, src: str) -> bool:
        return src in self.of(node)


def origins(f: FunctionInfo) -> Origins:
    cached = getattr(f.node, "_verif_origins", None)
    if cached is None:
        cached = Origins(f)
        f.node._verif_origins = cached
    return cached


def control_names(f: FunctionInfo, stmt_facts) -> set[str]:
    """Names appearing in the branch conditions that govern a statement."""
    out = set()
    for x in stmt_facts:
        if x[0] == "cond":
            out |= Origins.names_in(x[1])
        elif x[0] == "match":
            out |= Origins.names_in(x[1])
    return out


def param_is_live(f: FunctionInfo, pname: str) -> bool:
    """Does parameter `pname` influence any return value, raise, or store, by data or control
    dependence?  (A parameter that is read nowhere cannot influence the result.)"""
    from .flow import flow

    og = origins(f)
    res = flow(f.node)
    for st, facts in res.stmts:
        if isinstance(st, ast.Return) and st.value is not None:
            srcs = og.of(st.value) | og.of_names(control_names(f, facts))
            if pname in srcs:
                return True
        elif isinstance(st, ast.Raise):
            if pname in og.of_names(control_names(f, facts)):
                return True
    # yield / attribute stores
    for n in walk_no_nested(f.node):
        if isinstance(n, (ast.Yield, ast.YieldFrom)) and n.value is not None and pname in og.of(n.value):
            return True
        if isinstance(n, ast.Assign):
            for t in n.targets:
                if isinstance(t, ast.Attribute) and pname in og.of(n.value):
                    return True
    return False
