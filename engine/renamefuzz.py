"""Checker robustness against behaviour-preserving renames of local variables (see tools/rename_fuzz.py): every local of every
function the property's quick check places obligations on is renamed, at the exact positions of its ast.Name nodes, and
the property re-checked in memory.  A rename that adds a violated obligation or loses a confirmed one is a defect of the
CHECKER (exit 2 in the thorough tier), never a statement about /repo."""

from __future__ import annotations

import ast
import os
from concurrent.futures import ProcessPoolExecutor

from .main import load_floors, lost_confirmed, run_property
from .model import RepoModel

REPO = os.environ.get("VERIF_REPO", "/repo")


def locals_of(fnode):
    params = {a.arg for a in fnode.args.args + fnode.args.kwonlyargs + fnode.args.posonlyargs}
    if fnode.args.vararg: params.add(fnode.args.vararg.arg)
    if fnode.args.kwarg: params.add(fnode.args.kwarg.arg)
    out = set()
    for n in ast.walk(fnode):
        if isinstance(n, ast.Name) and isinstance(n.ctx, ast.Store) and n.id not in params and n.id != "_":
            out.add(n.id)
    return sorted(out)


def one(args):
    pid, rel, lo, hi, name, base = args
    full = open(os.path.join(REPO, rel), encoding="utf-8").read()
    new = name + "_rn"
    tree = ast.parse(full)
    fn = next(n for n in ast.walk(tree) if isinstance(n, (ast.FunctionDef, ast.AsyncFunctionDef)) and n.lineno == lo and n.end_lineno == hi)
    if any(isinstance(n, ast.Name) and n.id == new for n in ast.walk(fn)):
        return None
    pos = sorted({(n.lineno, n.col_offset) for n in ast.walk(fn) if isinstance(n, ast.Name) and n.id == name}, reverse=True)
    lines = full.split("\n")
    for ln, col in pos:
        line = lines[ln - 1]
        # col_offset is in utf-8 bytes
        b = line.encode("utf-8")
        if b[col:col + len(name)].decode("utf-8", "replace") != name:
            return (pid, rel, name, "skipped", "offset")
        lines[ln - 1] = (b[:col] + new.encode() + b[col + len(name):]).decode("utf-8")
    text = "\n".join(lines)
    try:
        ast.parse(text)
    except SyntaxError:
        return (pid, rel, name, "skipped", "syntax")
    try:
        model = RepoModel(overrides={rel: text})
        ctx = run_property(pid, "quick", model)
    except Exception as exc:  # noqa: BLE001
        return (pid, rel, name, "error", str(exc)[:100])
    viol = sorted(o.key for o in ctx.obs if o.status == "violated" and o.key not in base)
    lost = lost_confirmed(ctx, load_floors().get(pid, {}))
    if viol:
        return (pid, rel, name, "VIOLATION", viol[:3])
    if lost or ctx.crashed:
        return (pid, rel, name, "lost", (lost[:3] or ctx.crashed[-150:]))
    return (pid, rel, name, "ok", "")




def jobs_for(pid, model=None):
    m = model or RepoModel()
    ctx = run_property(pid, "quick", m)
    base = {o.key for o in ctx.obs if o.status == "violated"}
    jobs = []
    for q in sorted(ctx.analysed_functions):
        f = m.functions.get(q)
        if f is None:
            continue
        top = f
        while top.parent is not None:
            top = top.parent
        for nm in locals_of(f.node):
            jobs.append((pid, f.file, f.node.lineno, f.node.end_lineno, nm, base))
    return jobs


def run_for(pid, workers=16):
    jobs = jobs_for(pid)
    if not jobs:
        return {"renames": 0, "ok": 0, "failed": []}
    with ProcessPoolExecutor(max_workers=workers) as ex:
        res = [r for r in ex.map(one, jobs, chunksize=4) if r]
    bad = [r for r in res if r[3] in ("VIOLATION", "lost", "error")]
    return {"renames": len(res), "ok": sum(1 for r in res if r[3] == "ok"), "skipped": sum(1 for r in res if r[3] == "skipped"),
            "failed": [f"{r[1]}:{r[2]} -> {r[3]} {r[4]}" for r in bad]}
