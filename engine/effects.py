"""R-EFFECT: flow-sensitive may-alias analysis; reports stores that definitely reach caller-owned
storage (a parameter object, or a self attribute outside __init__).

Alias values are sets of atoms:  ('param', p)  ('self', attr)  ('elem', base_atom)  'fresh'  'top'.
An alarm needs a store whose target's alias set contains a param/self atom and NO 'top' atom is
needed: may-alias with a definite param origin on some path is reported (the path is real: the
analysis follows isinstance / is None refinement only through rebinding).
"""

from __future__ import annotations

import ast
from dataclasses import dataclass

from .model import FunctionInfo, RepoModel, unparse

FRESH = "fresh"
TOP = "top"

# library calls returning a new object unrelated to their arguments' storage
FRESH_LIBS = {
    "numpy.array", "numpy.copy", "numpy.zeros", "numpy.ones", "numpy.eye", "numpy.identity", "numpy.kron",
    "numpy.zeros_like", "numpy.ones_like", "numpy.empty", "numpy.full", "numpy.arange", "numpy.linspace",
    "numpy.outer", "numpy.dot", "numpy.matmul", "numpy.sum", "numpy.prod", "numpy.trace", "numpy.sqrt",
    "numpy.abs", "numpy.conj", "numpy.conjugate", "numpy.round", "numpy.around", "numpy.multiply", "numpy.add",
    "numpy.subtract", "numpy.divide", "numpy.power", "numpy.exp", "numpy.log", "numpy.log2", "numpy.hstack",
    "numpy.vstack", "numpy.concatenate", "numpy.stack", "numpy.column_stack", "numpy.block", "numpy.bmat",
    "numpy.tile", "numpy.repeat", "numpy.argsort", "numpy.sort", "numpy.linalg.inv", "numpy.linalg.eigvalsh",
    "numpy.linalg.eigvals", "numpy.linalg.eigh", "numpy.linalg.eig", "numpy.linalg.svd", "numpy.linalg.norm",
    "numpy.linalg.matrix_power", "numpy.linalg.matrix_rank", "numpy.linalg.det", "numpy.linalg.pinv",
    "numpy.linalg.qr", "numpy.linalg.cholesky", "numpy.delete", "numpy.insert", "numpy.append", "numpy.unique",
    "numpy.diag", "numpy.tensordot", "numpy.einsum", "numpy.where", "numpy.max", "numpy.min", "numpy.amax",
    "numpy.amin", "numpy.mean", "numpy.cumsum", "numpy.cumprod", "numpy.flip", "numpy.roll", "numpy.triu",
    "numpy.tril", "numpy.meshgrid", "numpy.random.default_rng", "scipy.linalg.sqrtm", "scipy.linalg.expm",
    "scipy.linalg.logm", "scipy.linalg.fractional_matrix_power", "scipy.linalg.null_space", "scipy.linalg.orth",
    "scipy.sparse.identity", "scipy.sparse.eye", "scipy.sparse.csr_matrix", "scipy.sparse.lil_matrix",
    "builtins.list", "builtins.tuple", "builtins.dict", "builtins.set", "builtins.sorted", "builtins.range",
    "builtins.int", "builtins.float", "builtins.len", "builtins.sum", "builtins.max", "builtins.min",
    "builtins.abs", "builtins.round", "builtins.str", "builtins.bool", "builtins.complex", "builtins.enumerate",
    "builtins.zip", "builtins.map", "builtins.reversed", "copy.deepcopy", "copy.copy", "collections.defaultdict",
    "itertools.product", "itertools.permutations", "itertools.combinations",
}
# library calls returning a view / the same object as their first argument
VIEW_LIBS = {
    "numpy.asarray", "numpy.asanyarray", "numpy.reshape", "numpy.transpose", "numpy.ravel", "numpy.squeeze",
    "numpy.atleast_1d", "numpy.atleast_2d", "numpy.real", "numpy.imag", "numpy.swapaxes", "numpy.moveaxis",
    "numpy.expand_dims", "numpy.ascontiguousarray", "numpy.asfortranarray", "numpy.diagonal", "numpy.broadcast_to",
    "numpy.asmatrix", "numpy.matrix",
    # scalar-type constructors applied to an array return the array itself when the dtype already matches
    "numpy.int_", "numpy.int64", "numpy.int32", "numpy.intc", "numpy.intp", "numpy.float64", "numpy.float_", "numpy.double",
    "numpy.complex128", "numpy.complex_", "numpy.cdouble", "numpy.bool_", "numpy.require", "numpy.asarray_chkfinite",
}
VIEW_METHODS = {"reshape", "transpose", "ravel", "squeeze", "view", "swapaxes", "astype_nocopy", "diagonal"}
FRESH_METHODS = {"copy", "conj", "conjugate", "astype", "flatten", "tolist", "toarray", "todense", "sum", "dot",
                 "round", "real_if_close", "items", "keys", "values", "get", "trace", "prod", "mean", "max", "min"}
VIEW_ATTRS = {"T", "real", "imag", "flat", "mT"}
MUTATORS = {"sort", "fill", "resize", "append", "extend", "insert", "pop", "remove", "clear", "reverse", "update",
            "setdefault", "put", "itemset", "setflags", "popitem", "add", "discard", "partition", "setfield",
            "byteswap_inplace"}
MUTATING_LIBS = {"numpy.fill_diagonal": 0, "numpy.put": 0, "numpy.copyto": 0, "numpy.place": 0, "numpy.putmask": 0,
                 "numpy.random.shuffle": 0, "random.shuffle": 0, "numpy.put_along_axis": 0}


@dataclass
class Effect:
    node: ast.AST
    target: str  # 'param:<p>' | 'self:<attr>'
    how: str  # 'subscript-store' | 'aug-assign' | 'mutator:<m>' | 'attr-store' | 'lib:<f>' | 'out='
    text: str
    via: str = ""  # alias chain text


def _is_owner(a):
    return isinstance(a, tuple) and a[0] in ("param", "self", "elem")


def _root(a):
    while a[0] == "elem":
        a = a[1]
    return a


class EffectAnalysis:
    def __init__(self, model: RepoModel, f: FunctionInfo, self_is_owner=True, immutable_params=(), depth=0):
        self.model = model
        self.f = f
        self.effects: list[Effect] = []
        self.self_is_owner = self_is_owner
        self.returned: set = set()  # owner atoms the return value may alias (used for the callers' summaries)
        self.depth = depth
        # names that are integer scalars: counters of range() loops (and of enumerate): `a[:, :, i, j]` is basic indexing, a view
        self.int_names = set()
        for n in ast.walk(f.node):
            it = getattr(n, "iter", None)
            tg = getattr(n, "target", None)
            if isinstance(n, (ast.For, ast.comprehension)) and isinstance(it, ast.Call) and isinstance(it.func, ast.Name):
                if it.func.id == "range" and isinstance(tg, ast.Name):
                    self.int_names.add(tg.id)
                elif it.func.id == "enumerate" and isinstance(tg, ast.Tuple) and tg.elts and isinstance(tg.elts[0], ast.Name):
                    self.int_names.add(tg.elts[0].id)
        st = {}
        for p in f.params:
            if p.name in ("self", "cls") and f.cls is not None:
                continue
            if p.name in immutable_params:
                st[p.name] = {FRESH}
            elif self._scalar_only(p):
                st[p.name] = {FRESH}
            else:
                st[p.name] = {("param", p.name)}
        self.run_block(f.node.body, st)

    @staticmethod
    def _scalar_only(p) -> bool:
        if p.annotation is None:
            return False
        txt = unparse(p.annotation)
        toks = [t.strip() for t in txt.replace("None", "").split("|") if t.strip()]
        return bool(toks) and all(t in ("int", "float", "bool", "str", "complex") for t in toks)

    # --- expression aliasing -----------------------------------------------------------------
    def alias(self, e, st) -> set:  # noqa: C901
        if isinstance(e, ast.Name):
            return set(st.get(e.id, {TOP})) if e.id in st else {TOP}
        if isinstance(e, ast.Attribute):
            if isinstance(e.value, ast.Name) and e.value.id == "self" and self.f.cls is not None:
                return {("self", e.attr)}
            if e.attr in VIEW_ATTRS:
                return self.alias(e.value, st)
            if e.attr in ("shape", "ndim", "size", "dtype", "value"):
                return {FRESH}
            return {TOP}
        if isinstance(e, ast.Subscript):
            base = self.alias(e.value, st)
            sl = e.slice
            # basic slicing gives a view; an integer index into a list/array gives an element that
            # may be an object owned by the container
            if self._basic_slice(sl):
                return base
            out = set()
            for a in base:
                if _is_owner(a):
                    out.add(("elem", a))
                elif a == FRESH:
                    out.add(FRESH)
                else:
                    out.add(TOP)
            return out
        if isinstance(e, (ast.BinOp, ast.UnaryOp, ast.Compare, ast.BoolOp, ast.Constant, ast.JoinedStr,
                          ast.ListComp, ast.SetComp, ast.DictComp, ast.GeneratorExp, ast.Lambda)):
            if isinstance(e, ast.BoolOp):
                out = set()
                for v in e.values:
                    out |= self.alias(v, st)
                return out
            return {FRESH}
        if isinstance(e, (ast.List, ast.Tuple, ast.Set, ast.Dict)):
            return {FRESH}
        if isinstance(e, ast.IfExp):
            return self.alias(e.body, st) | self.alias(e.orelse, st)
        if isinstance(e, ast.NamedExpr):
            return self.alias(e.value, st)
        if isinstance(e, ast.Starred):
            return self.alias(e.value, st)
        if isinstance(e, ast.Call):
            cal = self.model.resolve_call(self.f, e)
            if cal.kind == "lib":
                if cal.lib in VIEW_LIBS and e.args:
                    return self.alias(e.args[0], st)
                if cal.lib in FRESH_LIBS:
                    return {FRESH}
                return {TOP}
            if cal.kind == "repo" and cal.func is not None and self.depth < 2:
                ps = returns_alias_params(self.model, cal.func, self.depth + 1)
                if ps:
                    try:
                        b = self.model.bind(e, cal.func)
                    except Exception:  # noqa: BLE001
                        b = {}
                    out = {TOP}
                    for pn in ps:
                        a = b.get(pn)
                        if isinstance(a, ast.AST):
                            out |= self.alias(a, st)
                    return out
            if isinstance(e.func, ast.Attribute):
                m = e.func.attr
                if m in VIEW_METHODS:
                    return self.alias(e.func.value, st)
                if m in FRESH_METHODS:
                    return {FRESH}
            return {TOP}
        return {TOP}

    def _array_elements(self, a) -> bool:
        r = _root(a)
        if r[0] == "param":
            p = self.f.param(r[1])
            ann = unparse(p.annotation) if p is not None and p.annotation is not None else ""
            return "list[np.ndarray" in ann or "list[numpy.ndarray" in ann or "list[list[np.ndarray" in ann
        return False

    def _basic_slice(self, sl) -> bool:
        if isinstance(sl, ast.Slice):
            return True
        if isinstance(sl, ast.Tuple):
            # slices mixed with integer scalars (constants, range counters) is numpy basic indexing: a view of the array
            return any(isinstance(x, ast.Slice) for x in sl.elts) and all(
                isinstance(x, (ast.Slice, ast.Constant)) or (isinstance(x, ast.Name) and x.id in self.int_names) for x in sl.elts)
        return False

    # --- statements --------------------------------------------------------------------------
    def report(self, node, aliases, how):
        for a in sorted(aliases, key=repr):
            if not _is_owner(a):
                continue
            r = _root(a)
            if r[0] == "self" and not self.self_is_owner:
                continue
            tgt = f"{r[0]}:{r[1]}"
            self.effects.append(Effect(node, tgt, how, unparse(node)[:120], repr(a)))

    def store(self, target, value_alias, st, node):
        if isinstance(target, ast.Name):
            st[target.id] = set(value_alias)
        elif isinstance(target, (ast.Tuple, ast.List)):
            for e in target.elts:
                # unpacking: elements of the value
                va = set()
                for a in value_alias:
                    va.add(("elem", a) if _is_owner(a) else a)
                self.store(e, va, st, node)
        elif isinstance(target, ast.Starred):
            self.store(target.value, {FRESH}, st, node)
        elif isinstance(target, ast.Subscript):
            self.report(node, self.alias(target.value, st), "subscript-store")
        elif isinstance(target, ast.Attribute):
            if isinstance(target.value, ast.Name) and target.value.id == "self" and self.f.cls is not None:
                if self.f.name != "__init__":
                    self.report(node, {("self", target.attr)}, "attr-store")
            else:
                self.report(node, self.alias(target.value, st), "attr-store")

    def scan_calls(self, node, st):
        for c in ast.walk(node):
            if not isinstance(c, ast.Call):
                continue
            if isinstance(c.func, ast.Attribute) and c.func.attr in MUTATORS:
                recv = self.alias(c.func.value, st)
                self.report(c, recv, f"mutator:{c.func.attr}")
            cal = self.model.resolve_call(self.f, c)
            if cal.kind == "lib" and cal.lib in MUTATING_LIBS and c.args:
                self.report(c, self.alias(c.args[MUTATING_LIBS[cal.lib]], st), f"lib:{cal.lib}")
            for kw in c.keywords:
                if kw.arg == "out":
                    self.report(c, self.alias(kw.value, st), "out=")
            # a repository callee that writes into one of its parameters writes into whatever the caller bound to it
            if cal.kind == "repo" and cal.func is not None and self.depth < 2 and cal.func is not self.f:
                wp = writes_params(self.model, cal.func, self.depth + 1)
                if wp:
                    try:
                        b = self.model.bind(c, cal.func)
                    except Exception:  # noqa: BLE001
                        b = {}
                    for pn in wp:
                        a = b.get(pn)
                        if isinstance(a, ast.AST):
                            self.report(c, self.alias(a, st), f"call:{cal.func.name} writes its `{pn}`")

    def run_block(self, stmts, st):
        for s in stmts:
            st = self.run_stmt(s, st)
            if st is None:
                return None
        return st

    @staticmethod
    def merge(a, b):
        if a is None:
            return b
        if b is None:
            return a
        out = {}
        for k in set(a) | set(b):
            out[k] = set(a.get(k, {TOP})) | set(b.get(k, {TOP}))
            if k not in a or k not in b:
                # defined on one path only
                out[k] = set(a.get(k, set())) | set(b.get(k, set()))
        return out

    def run_stmt(self, s, st):  # noqa: C901
        if isinstance(s, (ast.FunctionDef, ast.AsyncFunctionDef, ast.ClassDef)):
            return st
        if isinstance(s, ast.Assign):
            self.scan_calls(s.value, st)
            va = self.alias(s.value, st)
            for t in s.targets:
                self.store(t, va, st, s)
            return st
        if isinstance(s, ast.AnnAssign):
            if s.value is not None:
                self.scan_calls(s.value, st)
                self.store(s.target, self.alias(s.value, st), st, s)
            return st
        if isinstance(s, ast.AugAssign):
            self.scan_calls(s.value, st)
            if isinstance(s.target, ast.Name):
                cur = st.get(s.target.id, {TOP})
                # in-place for ndarray / list objects
                # an element of a container is written in place only if it is itself an array (list[np.ndarray] parameters,
                # views of self.<array>); an element that is a number is re-bound, not mutated
                self.report(s, {a for a in cur if _is_owner(a) and (a[0] != "elem" or self._array_elements(a))}, "aug-assign")
                if not any(_is_owner(a) for a in cur):
                    st[s.target.id] = {FRESH} if cur == {FRESH} else set(cur)
            else:
                self.store(s.target, {FRESH}, st, s)
            return st
        if isinstance(s, ast.Expr):
            self.scan_calls(s.value, st)
            return st
        if isinstance(s, ast.Return):
            if s.value is not None:
                self.scan_calls(s.value, st)
                self.returned |= {a for a in self.alias(s.value, st) if _is_owner(a)}
            return None
        if isinstance(s, ast.Raise):
            return None
        if isinstance(s, ast.If):
            self.scan_calls(s.test, st)
            a = self.run_block(s.body, {k: set(v) for k, v in st.items()})
            b = self.run_block(s.orelse, {k: set(v) for k, v in st.items()})
            if a is None and b is None:
                return None
            return self.merge(a, b)
        if isinstance(s, (ast.For, ast.AsyncFor)):
            self.scan_calls(s.iter, st)
            it = self.alias(s.iter, st)
            # iterating a container yields its elements; enumerate/zip yield tuples of elements
            elem = set()
            src = s.iter
            if isinstance(src, ast.Call) and isinstance(src.func, ast.Name) and src.func.id in ("enumerate", "zip", "reversed"):
                for a in src.args:
                    for x in self.alias(a, st):
                        elem.add(("elem", x) if _is_owner(x) else x)
                if src.func.id != "reversed":
                    elem = {("elem", x) if _is_owner(x) else x for x in elem} | {FRESH}
            else:
                for x in it:
                    elem.add(("elem", x) if _is_owner(x) else x)
            cur = st
            for _ in range(2):
                body_in = {k: set(v) for k, v in cur.items()}
                self.store(s.target, elem, body_in, s)
                out = self.run_block(s.body, body_in)
                cur = self.merge(cur, out) if out is not None else cur
            if s.orelse:
                cur = self.run_block(s.orelse, cur)
            return cur
        if isinstance(s, ast.While):
            self.scan_calls(s.test, st)
            cur = st
            for _ in range(2):
                out = self.run_block(s.body, {k: set(v) for k, v in cur.items()})
                cur = self.merge(cur, out) if out is not None else cur
            return cur
        if isinstance(s, (ast.With, ast.AsyncWith)):
            for it in s.items:
                self.scan_calls(it.context_expr, st)
                if it.optional_vars is not None:
                    self.store(it.optional_vars, {TOP}, st, s)
            return self.run_block(s.body, st)
        if isinstance(s, ast.Try):
            a = self.run_block(s.body, {k: set(v) for k, v in st.items()})
            outs = [a] if a is not None else []
            for h in s.handlers:
                hst = self.merge({k: set(v) for k, v in st.items()}, a)
                if h.name:
                    hst[h.name] = {FRESH}
                o = self.run_block(h.body, hst)
                if o is not None:
                    outs.append(o)
            res = None
            for o in outs:
                res = self.merge(res, o)
            if s.orelse and res is not None:
                res = self.run_block(s.orelse, res)
            if s.finalbody:
                res2 = self.run_block(s.finalbody, res if res is not None else st)
                res = res2 if res is not None else None
            return res
        if isinstance(s, ast.Match):
            res = None
            wild = False
            for c in s.cases:
                if isinstance(c.pattern, ast.MatchAs) and c.pattern.pattern is None:
                    wild = True
                o = self.run_block(c.body, {k: set(v) for k, v in st.items()})
                if o is not None:
                    res = self.merge(res, o)
            if not wild:
                res = self.merge(res, st)
            return res
        if isinstance(s, ast.Delete):
            for t in s.targets:
                if isinstance(t, ast.Subscript):
                    self.report(s, self.alias(t.value, st), "del-item")
            return st
        if isinstance(s, ast.Assert):
            return st
        return st


def effects_on_params(model, f, params=None, self_is_owner=True):
    ea = EffectAnalysis(model, f, self_is_owner=self_is_owner)
    out = []
    for e in ea.effects:
        kind, name = e.target.split(":", 1)
        if kind == "param" and (params is None or name in params):
            out.append(e)
        elif kind == "self" and self_is_owner:
            out.append(e)
    # de-duplicate (loops are analysed twice)
    seen = set()
    uniq = []
    for e in out:
        k = (id(e.node), e.target, e.how)
        if k not in seen:
            seen.add(k)
            uniq.append(e)
    return uniq


def returns_alias_params(model, g: FunctionInfo, depth=1):
    """Names of the parameters of g that its return value may alias (e.g. to_density_matrix returns a square input as it is)."""
    cache = model.__dict__.setdefault("_ret_alias", {})
    if g.qualname in cache:
        return cache[g.qualname]
    cache[g.qualname] = set()  # recursion guard
    try:
        ea = EffectAnalysis(model, g, self_is_owner=False, depth=depth)
        ps = {_root(a)[1] for a in ea.returned if _root(a)[0] == "param"}
    except Exception:  # noqa: BLE001
        ps = set()
    cache[g.qualname] = ps
    return ps


def writes_params(model, g: FunctionInfo, depth=1):
    """Names of the parameters of g that g (or, to depth 2, its repository callees) may write into."""
    cache = model.__dict__.setdefault("_writes_params", {})
    if g.qualname in cache:
        return cache[g.qualname]
    cache[g.qualname] = set()
    try:
        ea = EffectAnalysis(model, g, self_is_owner=False, depth=depth)
        ps = {e.target.split(":", 1)[1] for e in ea.effects if e.target.startswith("param:")}
    except Exception:  # noqa: BLE001
        ps = set()
    cache[g.qualname] = ps
    return ps
