"""Small symbolic evaluation of fixed-size (d x d, d literal) matrix expressions over normalised terms.

Scalars are polynomials (engine.powcount.Poly-like, with exact rational coefficients) over
  - real parameters (`prob`, `gamma`, ...),
  - square roots  sqrt(e)  as opaque real symbols with the rule  sqrt(e) * sqrt(e) = e,
  - the entries  r{i}{j}  of a generic input matrix and their conjugates  r{i}{j}*.
Matrices are lists of lists of such polynomials.  Supported: literal np.array([[..]]) / lists, np.eye / identity,
np.diag([..]), np.zeros, + - * / scalar, @, .conj(), .T, Dagger, np.sqrt, np.asarray(x, ...), indexing x[i, j] of the
generic input.  Anything else raises Unsupported -> the caller reports `unknown`, never a verdict.

Used to decide, for the built-in qubit channels, that (a) sum_i K_i^+ K_i == I for the returned Kraus list and (b) the
directly applied form equals sum_i K_i rho K_i^+ entry by entry -- identities in the parameters, not sampled values."""

from __future__ import annotations

from fractions import Fraction

from .norm import show


class Unsupported(Exception):
    pass


class P:
    """polynomial with Fraction coefficients (complex unit handled as symbol 'i' with i*i = -1); square-root symbols reduce"""

    rules: dict = {}  # symbol -> P for symbol**2

    def __init__(self, d=None):
        self.d = {k: v for k, v in (d or {}).items() if v != 0}

    @staticmethod
    def c(v):
        if isinstance(v, complex):
            return P.c(Fraction(v.real).limit_denominator(10**9)) + P.sym("i") * P.c(Fraction(v.imag).limit_denominator(10**9))
        if isinstance(v, float):
            return P({(): Fraction(v).limit_denominator(10**9)})
        return P({(): Fraction(v)})

    @staticmethod
    def sym(s):
        return P({((s, 1),): Fraction(1)})

    def __add__(self, o):
        d = dict(self.d)
        for k, v in o.d.items():
            d[k] = d.get(k, 0) + v
        return P(d)

    def __neg__(self):
        return P({k: -v for k, v in self.d.items()})

    def __sub__(self, o):
        return self + (-o)

    def __mul__(self, o):
        out = P()
        for k1, v1 in self.d.items():
            for k2, v2 in o.d.items():
                m = dict(k1)
                for s, p in k2:
                    m[s] = m.get(s, 0) + p
                term = P({(): v1 * v2})
                rest = {}
                for s, p in m.items():
                    if s == "i":
                        if p % 4 in (2, 3):
                            term = -term
                        if p % 2:
                            rest["i"] = 1
                    elif s in P.rules and p >= 2:
                        q, r = divmod(p, 2)
                        for _ in range(q):
                            term = term * P.rules[s]
                        if r:
                            rest[s] = 1
                    else:
                        rest[s] = p
                mono = P({tuple(sorted(rest.items())): Fraction(1)}) if rest else P.c(1)
                out = out + _rawmul(term, mono)
        return out

    def conj(self):
        out = P()
        for k, v in self.d.items():
            sign = 1
            m = {}
            for s, p in k:
                if s == "i":
                    if p % 2:
                        sign = -sign
                    m[s] = p
                elif s.startswith("r") and len(s) in (3, 4) and s[1:3].isdigit():
                    s2 = s[:-1] if s.endswith("*") else s + "*"
                    m[s2] = p
                else:
                    m[s] = p
            out = out + P({tuple(sorted(m.items())): v * sign})
        return out

    def is_zero(self):
        return not self.d

    def __eq__(self, o):
        return (self - o).is_zero()

    def __repr__(self):
        if not self.d:
            return "0"
        ps = []
        for k, v in sorted(self.d.items()):
            mono = "*".join(f"{s}^{p}" if p != 1 else s for s, p in k)
            ps.append((f"{v}*" if v != 1 or not mono else "") + mono if mono else f"{v}")
        return " + ".join(ps)


def _rawmul(a: P, b: P):
    d = {}
    for k1, v1 in a.d.items():
        for k2, v2 in b.d.items():
            m = dict(k1)
            for s, p in k2:
                m[s] = m.get(s, 0) + p
            k = tuple(sorted(m.items()))
            d[k] = d.get(k, 0) + v1 * v2
    return P(d)


def generic(d=2):
    return [[P.sym(f"r{i}{j}") for j in range(d)] for i in range(d)]


class Eval:
    def __init__(self, params, input_name="input_mat", d=2, env=None):
        self.params = set(params)
        self.input_name = input_name
        self.d = d
        self.env = env or {}  # local name -> term (already normalised)
        P.rules = {}

    # -- scalars
    def scalar(self, t):
        h = t[0]
        if h == "c":
            v = t[1]
            if isinstance(v, bool) or v is None:
                raise Unsupported(f"constant {v}")
            if isinstance(v, str):
                if v in ("1j", "1.0j"):
                    return P.sym("i")
                raise Unsupported(f"constant {v}")
            return P.c(v)
        if h == "n":
            if t[1] in self.params:
                return P.sym(t[1])
            if t[1] in self.env:
                return self.scalar(self.env[t[1]])
            raise Unsupported(f"name {t[1]}")
        if h == "neg":
            return -self.scalar(t[1])
        if h == "+":
            out = P()
            for x in t[1]:
                out = out + self.scalar(x)
            return out
        if h == "*":
            out = P.c(1)
            for x in t[1]:
                out = out * self.scalar(x)
            return out
        if h == "**" and t[2][0] == "c" and isinstance(t[2][1], int) and 0 <= t[2][1] <= 4:
            out = P.c(1)
            b = self.scalar(t[1])
            for _ in range(t[2][1]):
                out = out * b
            return out
        if h == "/":
            den = self.scalar(t[2])
            if len(den.d) == 1 and () in den.d:
                return self.scalar(t[1]) * P({(): 1 / den.d[()]})
            raise Unsupported("division by a non-constant")
        if h == "call" and t[1] in ("numpy.sqrt", "math.sqrt", "cmath.sqrt") and len(t[2]) == 1:
            inner = self.scalar(t[2][0])
            if len(inner.d) == 1 and () in inner.d:
                v = inner.d[()]
                from math import isqrt
                if v >= 0 and isqrt(v.numerator) ** 2 == v.numerator and isqrt(v.denominator) ** 2 == v.denominator:
                    return P.c(Fraction(isqrt(v.numerator), isqrt(v.denominator)))
            if inner.is_zero():
                return P.c(0)
            nm = f"sqrt({inner!r})"
            P.rules[nm] = inner
            return P.sym(nm)
        if h == "sub":
            m = self.matrix(t[1])
            idx = t[2]
            if idx[0] == "tuple" and len(idx) == 3 and idx[1][0] == "c" and idx[2][0] == "c":
                return m[idx[1][1]][idx[2][1]]
            raise Unsupported("subscript")
        if h in ("conj",):
            return self.scalar(t[1]).conj()
        if h == "real" or h == "imag":
            raise Unsupported(h)
        if h == "call" and t[1] in ("builtins.float", "builtins.complex", "builtins.int") and len(t[2]) == 1:
            return self.scalar(t[2][0])
        raise Unsupported(f"scalar {show(t)[:40]}")

    # -- matrices
    def matrix(self, t):
        d = self.d
        h = t[0]
        if h == "n":
            if t[1] == self.input_name:
                return generic(d)
            if t[1] in self.env:
                return self.matrix(self.env[t[1]])
            raise Unsupported(f"name {t[1]}")
        if h == "call":
            k = t[1]
            kw = dict(t[3])
            if k in ("numpy.eye", "numpy.identity") and t[2] and t[2][0] == ("c", d):
                return [[P.c(1 if i == j else 0) for j in range(d)] for i in range(d)]
            if k in ("numpy.zeros", "numpy.zeros_like"):
                return [[P.c(0) for _ in range(d)] for _ in range(d)]
            if k in ("numpy.array", "numpy.asarray", "numpy.matrix") and t[2]:
                return self.matrix(t[2][0])
            if k == "numpy.diag" and t[2] and t[2][0][0] in ("list", "tuple") and len(t[2][0]) == d + 1:
                vals = [self.scalar(x) for x in t[2][0][1:]]
                return [[vals[i] if i == j else P.c(0) for j in range(d)] for i in range(d)]
            if k in ("numpy.conjugate", "numpy.conj") and t[2]:
                return [[x.conj() for x in r] for r in self.matrix(t[2][0])]
            if k in ("numpy.transpose",) and len(t[2]) == 1:
                m = self.matrix(t[2][0])
                return [[m[j][i] for j in range(d)] for i in range(d)]
            if str(k).endswith("pauli.pauli") or str(k).endswith("matrices.pauli"):
                raise Unsupported("pauli()")
            raise Unsupported(f"call {k}")
        if h in ("list", "tuple"):
            rows = t[1:]
            if len(rows) == d and all(r[0] in ("list", "tuple") and len(r) == d + 1 for r in rows):
                return [[self.scalar(x) for x in r[1:]] for r in rows]
            raise Unsupported("literal shape")
        if h == "conj":
            return [[x.conj() for x in r] for r in self.matrix(t[1])]
        if h == "T":
            m = self.matrix(t[1])
            return [[m[j][i] for j in range(d)] for i in range(d)]
        if h == "dag":
            m = self.matrix(t[1])
            return [[m[j][i].conj() for j in range(d)] for i in range(d)]
        if h == "neg":
            return [[-x for x in r] for r in self.matrix(t[1])]
        if h == "+":
            out = [[P.c(0) for _ in range(d)] for _ in range(d)]
            for x in t[1]:
                m = self.matrix(x)
                out = [[out[i][j] + m[i][j] for j in range(d)] for i in range(d)]
            return out
        if h == "*":
            mats, scal = [], P.c(1)
            for x in t[1]:
                try:
                    scal = scal * self.scalar(x)
                except Unsupported:
                    mats.append(self.matrix(x))
            if len(mats) != 1:
                raise Unsupported("elementwise product of matrices")
            return [[scal * v for v in r] for r in mats[0]]
        if h == "/":
            den = self.scalar(t[2])
            if len(den.d) == 1 and () in den.d:
                f = P({(): 1 / den.d[()]})
                return [[f * v for v in r] for r in self.matrix(t[1])]
            raise Unsupported("division")
        if h == "@":
            ms = [self.matrix(x) for x in t[1]]
            out = ms[0]
            for m in ms[1:]:
                out = [[sum((out[i][k] * m[k][j] for k in range(d)), P.c(0)) for j in range(d)] for i in range(d)]
            return out
        raise Unsupported(f"matrix {show(t)[:40]}")


def mat_eq(a, b):
    return all(x == y for ra, rb in zip(a, b) for x, y in zip(ra, rb))


def first_diff(a, b):
    for i, (ra, rb) in enumerate(zip(a, b)):
        for j, (x, y) in enumerate(zip(ra, rb)):
            if not (x == y):
                return i, j, x, y
    return None
