"""Obligations, known findings, evidence files, exit codes."""

from __future__ import annotations

import json
import os
import time
from dataclasses import asdict, dataclass, field

VERIF = os.path.dirname(os.path.dirname(os.path.abspath(__file__)))
EVIDENCE_DIR = os.path.join(VERIF, "evidence")
KNOWN_FILE = os.path.join(VERIF, "known_findings.json")

DISCHARGED, VIOLATED, UNKNOWN = "discharged", "violated", "unknown"


@dataclass
class Obligation:
    rule: str  # R-THREAD ...
    function: str  # short name: module tail + function, or Class.method
    construct: str  # stable key of the construct (normalised, no line numbers)
    status: str
    file: str = ""
    line: int = 0
    detail: str = ""
    required: bool = True  # table-driven (absence is a violation) vs pattern-instantiated
    chain: list = field(default_factory=list)  # call chain (thorough sweeps)

    @property
    def key(self):
        return (self.rule, self.function, self.construct)


class Ctx:
    """Collects the obligations of one property run."""

    def __init__(self, prop_id: str, model, tier: str):
        self.prop = prop_id
        self.model = model
        self.tier = tier
        self.obs: list[Obligation] = []
        self.analysed_functions: set[str] = set()
        self.notes: list[str] = []
        self.rules_applied: dict[str, str] = {}

    def rule(self, rid: str, text: str):
        self.rules_applied[rid] = text

    def ob(self, rule, fi, construct, ok, detail="", node=None, required=True, chain=None):
        """ok: True -> discharged, False -> violated, None -> unknown."""
        status = DISCHARGED if ok is True else VIOLATED if ok is False else UNKNOWN
        fname = fi if isinstance(fi, str) else fi.short
        file = "" if isinstance(fi, str) else fi.file
        line = getattr(node, "lineno", 0) if node is not None else (0 if isinstance(fi, str) else fi.node.lineno)
        o = Obligation(rule, fname, construct, status, file, line, detail, required, chain or [])
        # de-duplicate by key: a violated verdict wins
        for i, p in enumerate(self.obs):
            if p.key == o.key:
                if p.status != VIOLATED and o.status == VIOLATED:
                    self.obs[i] = o
                return self.obs[i]
        self.obs.append(o)
        if not isinstance(fi, str):
            self.analysed_functions.add(fi.qualname)
        return o

    def touched(self, fi):
        self.analysed_functions.add(fi.qualname)


def load_known():
    try:
        with open(KNOWN_FILE) as fh:
            return json.load(fh)
    except FileNotFoundError:
        return {"findings": []}


def finish(ctx: Ctx, t0: float, seed: int, floors: dict | None = None, selftest: dict | None = None) -> int:
    """Print verdict lines, write evidence, return exit code."""
    known = [k for k in load_known().get("findings", []) if k.get("property") == ctx.prop]
    known_keys = {(k["rule"], k["function"], k["construct"]) for k in known if k.get("status") == "known"}
    viol = [o for o in ctx.obs if o.status == VIOLATED]
    new = [o for o in viol if o.key not in known_keys]
    listed = [o for o in viol if o.key in known_keys]
    os.makedirs(os.path.join(EVIDENCE_DIR, "replay"), exist_ok=True)
    # stale replay files of this property
    for fn in os.listdir(os.path.join(EVIDENCE_DIR, "replay")):
        if fn.startswith(ctx.prop + "-"):
            try:
                os.unlink(os.path.join(EVIDENCE_DIR, "replay", fn))
            except OSError:
                pass
    for o in listed:
        print(f"KNOWN-FINDING: property={ctx.prop} {o.rule} {o.function} {o.construct} [{o.file}:{o.line}] {o.detail}")
    for k, o in enumerate(new):
        rp = os.path.join(EVIDENCE_DIR, "replay", f"{ctx.prop}-{k}.json")
        with open(rp, "w") as fh:
            json.dump({"property": ctx.prop, **asdict(o)}, fh, indent=1)
        print(f"  {o.rule} {o.file}:{o.line} {o.function}: {o.construct} -- {o.detail}")
        print(f"VIOLATION property={ctx.prop} replay={rp}")
    n_dis = sum(1 for o in ctx.obs if o.status == DISCHARGED)
    n_unk = sum(1 for o in ctx.obs if o.status == UNKNOWN)
    by_rule = {}
    for o in ctx.obs:
        r = by_rule.setdefault(o.rule, {"discharged": 0, "violated": 0, "unknown": 0})
        r[o.status] += 1
    samples = []
    seen_rules = set()
    for o in ctx.obs:
        if o.rule not in seen_rules or len(samples) < 12:
            seen_rules.add(o.rule)
            samples.append({"rule": o.rule, "function": o.function, "construct": o.construct, "status": o.status,
                            "where": f"{o.file}:{o.line}", "detail": o.detail[:300]})
        if len(samples) >= 40:
            break
    distinct = len({o.key for o in ctx.obs if o.status != UNKNOWN})
    ev = {
        "property_id": ctx.prop,
        "tier": ctx.tier,
        "seed": seed,
        "level": "other",
        "coverage": {
            "explanation": "Static analysis (ast only, no execution of toqito): " + "; ".join(
                f"{r}: {t}" for r, t in sorted(ctx.rules_applied.items())),
            "rule": "one obligation per (rule, function, normalised construct) instantiated on the current /repo "
                    "tree; non-trivial = verdict is discharged or violated (not unknown/top)",
            "obligations": len(ctx.obs),
            "discharged": n_dis,
            "unknown": n_unk,
            "violated_known": len(listed),
            "violated_new": len(new),
            "evaluations": len(ctx.obs),
            "distinct_nontrivial": distinct,
            "by_rule": by_rule,
            "samples": samples,
            "analysed": {**ctx.model.stats, "functions_with_obligations": sorted(ctx.analysed_functions)},
            "checker_cmd": f"./check {ctx.prop} --tier {ctx.tier}",
            "trusted_base": ["CPython ast parser", "engine/catalog: abstract semantics of numpy/scipy/cvxpy/picos calls",
                             "instance tables in engine/props (frozen from property statements and docstrings)"],
            "exhaustive": False,
            "notes": ctx.notes,
        },
        "assumptions": [
            "decides only the structural clauses listed in DESIGN.md section 4 for this property; numerical "
            "identities are not decided by this technique",
            "no monkey-patching / getattr-by-string / exec in toqito (none present today)",
        ],
        "wall_s": round(time.time() - t0, 3),
        "violations": len(new),
    }
    if selftest is not None:
        ev["coverage"]["selftest"] = selftest
    if floors is not None:
        ev["coverage"]["floors"] = floors
    os.makedirs(EVIDENCE_DIR, exist_ok=True)
    with open(os.path.join(EVIDENCE_DIR, f"{ctx.prop}.json"), "w") as fh:
        json.dump(ev, fh, indent=1, sort_keys=False)
    print(f"[{ctx.prop}] tier={ctx.tier} obligations={len(ctx.obs)} discharged={n_dis} unknown={n_unk} "
          f"known-findings={len(listed)} new-violations={len(new)} "
          f"(modules={ctx.model.stats['modules']} functions={ctx.model.stats['functions']} "
          f"call-sites={ctx.model.stats['call_sites']} resolved={ctx.model.stats['call_sites_resolved']})")
    return 1 if new else 0
