"""Checker self-test: seeded variants of the *current* tree, analysed in memory (no scratch copy:
RepoModel takes source overrides).  A breaking variant must add the expected violated obligation;
a silent twin (behaviour-preserving rewrite) must add none.  Variants that do not apply to the
current tree (text not found exactly once) are skipped and counted.  Results go to the evidence file;
a failure is exit 2 (the checker is wrong), never a VIOLATION for /repo."""

from __future__ import annotations

import importlib
import json
import os
from concurrent.futures import ProcessPoolExecutor

from .model import AnalysisError, RepoModel
from .report import VERIF


def load_variants(pid):
    path = os.path.join(VERIF, "variants", f"{pid}.json")
    try:
        with open(path) as fh:
            return json.load(fh)
    except FileNotFoundError:
        return []


def _violated(pid, overrides, want_lost=False):
    from .main import load_floors, lost_confirmed, run_property

    model = RepoModel(overrides=overrides)
    ctx = run_property(pid, "quick", model)
    viol = {o.key: o for o in ctx.obs if o.status == "violated"}
    if want_lost:
        return viol, lost_confirmed(ctx, load_floors().get(pid, {})), ctx.crashed
    return viol


def _apply(v, repo):
    overrides = {}
    edits = v["edits"] if "edits" in v else [v]
    for e in edits:
        rel = e["file"]
        src = overrides.get(rel)
        if src is None:
            with open(os.path.join(repo, rel), encoding="utf-8") as fh:
                src = fh.read()
        if "rename" in e:
            import ast

            a, b = e["rename"]
            tree = ast.parse(src)
            if any(isinstance(n, ast.Name) and n.id == b for n in ast.walk(tree)):
                return None
            pos = sorted({(n.lineno, n.col_offset) for n in ast.walk(tree) if isinstance(n, ast.Name) and n.id == a}, reverse=True)
            if not pos:
                return None
            lines = src.split("\n")
            for ln, col in pos:
                raw = lines[ln - 1].encode("utf-8")
                lines[ln - 1] = (raw[:col] + b.encode() + raw[col + len(a.encode()):]).decode("utf-8")
            overrides[rel] = "\n".join(lines)
            continue
        if src.count(e["old"]) != 1:
            return None
        overrides[rel] = src.replace(e["old"], e["new"])
    return overrides


def _one(args):
    pid, v, base_keys = args
    repo = os.environ.get("VERIF_REPO", "/repo")
    try:
        ov = _apply(v, repo)
        if ov is None:
            return (v["name"], "skipped", "edit does not apply to the current tree")
        try:
            viol, lost, crashed = _violated(pid, ov, want_lost=True)
        except AnalysisError as exc:
            if v.get("expect") == "analysis-error":
                return (v["name"], "ok", f"analysis error as expected: {exc}")
            return (v["name"], "failed", f"analysis error: {exc}")
        new = {k: o for k, o in viol.items() if k not in base_keys}
        if v.get("expect", "violation") == "silent":
            if new:
                return (v["name"], "failed", f"silent twin raised {sorted(new)[:3]}")
            if lost or crashed:
                return (v["name"], "failed", f"silent twin is no longer decidable: {lost[:3] or crashed[-200:]}")
            return (v["name"], "ok", "silent")
        if v.get("expect") == "undecidable":
            if new:
                return (v["name"], "ok", f"reported {sorted(new)[0]}")
            if lost or crashed:
                return (v["name"], "ok", f"exit 2: {len(lost)} confirmed obligation(s) lost")
            return (v["name"], "failed", "variant neither violates nor loses a confirmed obligation")
        want_rule = v.get("rule")
        want_sub = v.get("construct")
        hits = [k for k in new if (want_rule is None or k[0] == want_rule) and (want_sub is None or want_sub in k[2])]
        if hits:
            return (v["name"], "ok", f"reported {hits[0]}")
        return (v["name"], "failed", f"expected {want_rule} {want_sub}; new violations: {sorted(new)[:4]}")
    except Exception as exc:  # noqa: BLE001
        import traceback

        return (v["name"], "failed", "exception: " + traceback.format_exc()[-300:].replace("\n", " | "))


def run_for(pid, seed=0, jobs=None):
    variants = load_variants(pid)
    if not variants:
        return {"variants": 0, "ok": 0, "skipped": 0, "failed": []}
    base = _violated(pid, {})
    base_keys = set(base.keys())
    jobs = jobs or min(16, os.cpu_count() or 4)
    args = [(pid, v, base_keys) for v in variants]
    if jobs > 1 and len(args) > 2:
        with ProcessPoolExecutor(max_workers=jobs) as ex:
            results = list(ex.map(_one, args))
    else:
        results = [_one(a) for a in args]
    out = {"variants": len(variants), "ok": 0, "skipped": 0, "failed": [], "results": []}
    for name, st, msg in results:
        if st == "ok":
            out["ok"] += 1
        elif st == "skipped":
            out["skipped"] += 1
        else:
            out["failed"].append(f"{name}: {msg}")
        out["results"].append({"variant": name, "status": st, "detail": msg[:200]})
    out["breaking"] = sum(1 for v in variants if v.get("expect", "violation") != "silent")
    out["silent_twins"] = sum(1 for v in variants if v.get("expect") == "silent")
    return out


if __name__ == "__main__":
    import sys

    pid = sys.argv[1]
    r = run_for(pid)
    for x in r.get("results", []):
        print(x["status"], x["variant"], "--", x["detail"])
    print({k: v for k, v in r.items() if k not in ("results", "failed")}, "failed:", len(r["failed"]))
    sys.exit(2 if r["failed"] else 0)
