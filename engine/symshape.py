"""Symbolic dimension terms: monomial normal form (product of atoms with rational exponents)."""

from __future__ import annotations

from fractions import Fraction

from .norm import tkey

STRIP = {"builtins.int", "numpy.round", "builtins.round", "numpy.rint", "numpy.int64", "builtins.float", "numpy.prod_scalar"}


def strip_casts(t):
    while isinstance(t, tuple) and t and t[0] == "call" and t[1] in STRIP and len(t[2]) >= 1:
        t = t[2][0]
    return t


def monomial(t):
    """term -> (coefficient Fraction, {atom_key: exponent}) or None when not a monomial."""
    t = strip_casts(t)
    if t[0] == "c":
        v = t[1]
        if isinstance(v, bool) or v is None or isinstance(v, str):
            return None
        if isinstance(v, Fraction):
            return (v, {})
        if isinstance(v, (int, float)):
            return (Fraction(v).limit_denominator(10**6), {})
        return None
    if t[0] == "*":
        coef = Fraction(1)
        atoms: dict = {}
        for x in t[1]:
            mm = monomial(x)
            if mm is None:
                return None
            coef *= mm[0]
            for k, e in mm[1].items():
                atoms[k] = atoms.get(k, 0) + e
        return (coef, {k: e for k, e in atoms.items() if e != 0})
    if t[0] == "/":
        a, b = monomial(t[1]), monomial(t[2])
        if a is None or b is None or b[0] == 0:
            return None
        atoms = dict(a[1])
        for k, e in b[1].items():
            atoms[k] = atoms.get(k, 0) - e
        return (a[0] / b[0], {k: e for k, e in atoms.items() if e != 0})
    if t[0] == "**":
        base = monomial(t[1])
        ex = strip_casts(t[2])
        if base is None or ex[0] != "c" or not isinstance(ex[1], (int, float, Fraction)) or isinstance(ex[1], bool):
            return (Fraction(1), {tkey(t): Fraction(1)})
        e = Fraction(ex[1]).limit_denominator(10**6)
        if base[0] != 1 and e.denominator != 1:
            return None
        return (base[0] ** int(e) if e.denominator == 1 else base[0], {k: v * e for k, v in base[1].items()})
    if t[0] == "call" and t[1] in ("numpy.sqrt", "math.sqrt") and len(t[2]) == 1:
        base = monomial(t[2][0])
        if base is None or base[0] != 1:
            return None
        return (Fraction(1), {k: v * Fraction(1, 2) for k, v in base[1].items()})
    return (Fraction(1), {tkey(t): Fraction(1)})


def same_monomial(a, b):
    ma, mb = monomial(a), monomial(b)
    if ma is None or mb is None:
        return None
    return ma == mb


def product_of(terms):
    return ("*", tuple(terms)) if len(terms) > 1 else terms[0]
