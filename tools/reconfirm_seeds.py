#!/venv/bin/python
"""reconfirm_seeds.py [ids...] : for every kept seed, on scratch worktrees /tmp/wt/MUT0..7 moved to /repo HEAD (never /repo itself): the
demonstration passes on the clean tree and fails with the patch applied.  Records the result in seeded/<id>/meta.json["reconfirmed"]."""
import json, os, subprocess, sys, time
from concurrent.futures import ThreadPoolExecutor
from queue import Queue

head = subprocess.run("git -C /repo rev-parse HEAD", shell=True, capture_output=True, text=True).stdout.strip()
wts = Queue()
for i in range(8):
    wt = f"/tmp/wt/MUT{i}"
    if not os.path.isdir(wt):
        subprocess.run(f"git -C /repo worktree add -q --detach {wt} {head}", shell=True, check=True)
    subprocess.run(f"git -C {wt} checkout -q -- . && git -C {wt} checkout -q --detach {head}", shell=True, check=True)
    wts.put(wt)
ids = sys.argv[1:] or sorted(os.listdir("/verif/seeded"))


def one(sid):
    sd = f"/verif/seeded/{sid}"
    wt = wts.get()
    try:
        env = dict(os.environ, PYTHONPATH=wt)
        subprocess.run(f"git -C {wt} checkout -q -- .", shell=True)
        try:
            r0 = subprocess.run(["/venv/bin/python", f"{sd}/demo.py"], cwd=wt, env=env, capture_output=True, text=True, timeout=1200).returncode
        except subprocess.TimeoutExpired:
            r0 = "timeout"
        ap = subprocess.run(f"git -C {wt} apply {sd}/patch.diff", shell=True, capture_output=True, text=True)
        if ap.returncode != 0:
            return sid, r0, "patch does not apply"
        try:
            r1 = subprocess.run(["/venv/bin/python", f"{sd}/demo.py"], cwd=wt, env=env, capture_output=True, text=True, timeout=1200).returncode
        except subprocess.TimeoutExpired:
            r1 = "timeout"
        subprocess.run(f"git -C {wt} checkout -q -- .", shell=True)
        m = json.load(open(f"{sd}/meta.json"))
        m["reconfirmed"] = {"repo_head": head[:7], "date": time.strftime("%Y-%m-%d"), "demo_on_clean_tree_rc": r0, "demo_on_patched_tree_rc": r1,
                            "how": "scratch worktree at /repo HEAD, PYTHONPATH=worktree"}
        json.dump(m, open(f"{sd}/meta.json", "w"), indent=1)
        return sid, r0, r1
    finally:
        wts.put(wt)


with ThreadPoolExecutor(8) as ex:
    for sid, r0, r1 in ex.map(one, ids):
        flag = "" if (r0 == 0 and r1 not in (0, "timeout", "patch does not apply")) else "   <-- CHECK"
        print(f"{sid}: clean rc={r0} patched rc={r1}{flag}", flush=True)
