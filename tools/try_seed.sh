#!/bin/sh
# try_seed.sh <patch.diff> [ids...] : apply a seeded change to /repo, run the quick checks, undo it straight afterwards.
# prints one line per check: <ID> exit=<code> and the VIOLATION / ANALYSIS-ERROR lines
patch="$1"; shift
ids="$@"
[ -z "$ids" ] && ids="C01 C02 C03 C04 C05 C06 C07 C08 C09 C10 C11 C12 C13 C14 C15 C16 C17 C18 C19 C20"
cd /repo || exit 3
if [ -n "$(git status --porcelain --untracked-files=no)" ]; then echo "/repo not clean"; exit 3; fi
git apply "$patch" || { echo "patch does not apply"; exit 3; }
cd /verif
for id in $ids; do
  out=$(./check $id 2>&1); rc=$?
  if [ $rc -ne 0 ]; then
    echo "$id exit=$rc"; echo "$out" | grep -E "^  R-|ANALYSIS-ERROR" | cut -c1-260
  fi
done
git -C /repo checkout -- .
# evidence files were rewritten by the runs above on a modified tree: regenerate them on the clean tree
for id in $ids; do ./check $id >/dev/null 2>&1; done
echo "done; /repo restored: $(git -C /repo status --porcelain --untracked-files=no | wc -l) modified files"
