#!/venv/bin/python
"""keep_seed.py <ID> <a|b> : confirm a sub-agent's seeded change in its scratch worktree (demo passes clean, fails patched, touched packages' tests
pass patched), run the /verif checks against it, and store it under /verif/seeded/<ID>-<x>/ with meta.json."""
import json, os, re, shutil, subprocess, sys, time
pid, x = sys.argv[1], sys.argv[2]
dst_label = sys.argv[3] if len(sys.argv) > 3 else x
wt = f"/tmp/wt/{pid}"
sd = f"{wt}/SEED/{x}"
env = dict(os.environ, PYTHONPATH=wt)
def sh(cmd, **kw):
    return subprocess.run(cmd, shell=True, cwd=wt, env=env, capture_output=True, text=True, **kw)
sh("git checkout -q -- .")
r0 = sh(f"/venv/bin/python {sd}/demo.py", timeout=600)
ap = sh(f"git apply {sd}/patch.diff")
if ap.returncode != 0:
    print("patch does not apply", ap.stderr); sys.exit(3)
r1 = sh(f"/venv/bin/python {sd}/demo.py", timeout=600)
files = re.findall(r"^\+\+\+ b/(\S+)", open(f"{sd}/patch.diff", errors="replace").read(), re.M)
pkgs = sorted({"/".join(f.split("/")[:2]) + "/tests" for f in files})
tests = []
for p in pkgs:
    if os.path.isdir(f"{wt}/{p}"):
        t = sh(f"/venv/bin/python -m pytest -q -p no:cacheprovider --timeout=900 -x {p}", timeout=3000)
        tests.append({"cmd": f"pytest -q {p}", "rc": t.returncode, "tail": t.stdout.strip().splitlines()[-1] if t.stdout.strip() else t.stderr[-200:]})
# checks against the patched worktree
checks = {}
ids = [f"C{i:02d}" for i in range(1, 21)]
for cid in ids:
    c = subprocess.run(f"VERIF_REPO={wt} ./check {cid}", shell=True, cwd="/verif", capture_output=True, text=True)
    if c.returncode != 0:
        checks[cid] = {"exit": c.returncode, "lines": [l.strip()[:300] for l in c.stdout.splitlines() if l.startswith("  R-") or "ANALYSIS-ERROR" in l]}
sh("git checkout -q -- .")
for cid in checks:
    subprocess.run(f"./check {cid}", shell=True, cwd="/verif", capture_output=True)
ok = r0.returncode == 0 and r1.returncode != 0 and all(t["rc"] == 0 for t in tests)
print(f"{pid}/{x}: demo clean rc={r0.returncode} patched rc={r1.returncode}; tests {[(t['cmd'], t['rc'], t['tail']) for t in tests]}; caught by {list(checks)}")
if not ok:
    print("NOT KEPT (does not satisfy the conditions)"); sys.exit(1)
dst = f"/verif/seeded/{pid}-{dst_label}"
os.makedirs(dst, exist_ok=True)
for fn in ("patch.diff", "demo.py", "notes.md"):
    if os.path.exists(f"{sd}/{fn}"):
        shutil.copy(f"{sd}/{fn}", f"{dst}/{fn}")
notes = open(f"{sd}/notes.md", errors="replace").read() if os.path.exists(f"{sd}/notes.md") else ""
meta = {"property": pid, "seed": dst_label, "files": files, "needs_to_manifest": notes[:1500],
        "confirmed": {"demo_on_clean_tree_rc": r0.returncode, "demo_on_patched_tree_rc": r1.returncode, "tests_on_patched_tree": tests,
                      "how": f"scratch worktree {wt} at /repo HEAD {subprocess.run('git -C /repo rev-parse --short HEAD', shell=True, capture_output=True, text=True).stdout.strip()}, PYTHONPATH=worktree"},
        "checks_on_patched_tree": checks, "caught": bool(checks), "caught_by_own_property": pid in checks,
        "date": time.strftime("%Y-%m-%d")}
json.dump(meta, open(f"{dst}/meta.json", "w"), indent=1)
print("kept ->", dst)
