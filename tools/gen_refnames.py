#!/venv/bin/python
"""Writes refnames.json: for every top-level function / method of the confirmed tree, the order of its local names, the
alpha-invariant hash of its body and a binding descriptor per local (see engine/alpha.py)."""
import json, os, sys
sys.path.insert(0, os.path.dirname(os.path.dirname(os.path.abspath(__file__))))
os.environ["VERIF_NO_ALPHA"] = "1"
from engine import alpha
from engine.model import RepoModel
m = RepoModel()
out = {}
for q, f in sorted(m.functions.items()):
    if f.parent is None:
        alpha.orient(f.node)
        out[q] = alpha.describe(f.node)
json.dump(out, open(alpha.REF_FILE, "w"), indent=0, sort_keys=True)
print(len(out), "functions,", sum(len(v["order"]) for v in out.values()), "locals")
