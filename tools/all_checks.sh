#!/bin/sh
# all_checks.sh [tier] : run the 20 checks in parallel against /repo (or $VERIF_REPO) and print one line per non-zero exit
tier=${1:-quick}
cd "$(dirname "$0")/.."
tmp=$(mktemp -d /root/scratch/allchk.XXXXXX 2>/dev/null || mktemp -d)
for i in 01 02 03 04 05 06 07 08 09 10 11 12 13 14 15 16 17 18 19 20; do
  ( ./check C$i --tier $tier > $tmp/C$i.log 2>&1; echo $? > $tmp/C$i.rc ) &
done
wait
bad=0
for i in 01 02 03 04 05 06 07 08 09 10 11 12 13 14 15 16 17 18 19 20; do
  rc=$(cat $tmp/C$i.rc)
  if [ "$rc" != "0" ]; then bad=1; echo "C$i exit=$rc"; grep -E "^  R-|^  SWEEP|ANALYSIS-ERROR|no longer|failed" $tmp/C$i.log | cut -c1-300 | head -8; fi
done
[ $bad = 0 ] && echo "all 20 checks exit 0 ($tier)"
rm -rf $tmp
