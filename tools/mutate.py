#!/venv/bin/python
"""mutate.py <ID> [--limit N] [--tests] : generic small mutants of the functions a property's check looks at.

For every mutant (one AST-local edit, applied as a text edit at the node's exact position) the property's quick check is run in
memory.  Mutants the check does not report are listed; with --tests each of those is additionally applied to a scratch worktree
(/tmp/wt/MUT) and the test file(s) of the touched module are run: a mutant that the checks miss AND the existing tests pass is a
candidate gap (or an equivalent mutant) to triage by hand.  Nothing here is part of a registered check; nothing touches /repo."""
import argparse, ast, json, os, re, subprocess, sys
from concurrent.futures import ProcessPoolExecutor
sys.path.insert(0, os.path.dirname(os.path.dirname(os.path.abspath(__file__))))
from engine.main import load_floors, lost_confirmed, run_property
from engine.model import RepoModel

REPO = "/repo"


def seg(src_lines, node):
    """(start offset, end offset) of node in the source text"""
    def off(l, c):
        return sum(len(x) + 1 for x in src_lines[: l - 1]) + len(src_lines[l - 1].encode()[:c].decode())
    return off(node.lineno, node.col_offset), off(node.end_lineno, node.end_col_offset)


def mutants(fn, src):
    lines = src.split("\n")
    out = []

    def rep(node, new, kind):
        a, b = seg(lines, node)
        out.append((kind, node.lineno, src[a:b], new, a, b))

    for n in ast.walk(fn):
        txt = lambda x: ast.get_source_segment(src, x)  # noqa: E731
        # conj drop:  X.conj().T -> X.T ; X.conj() -> X
        if isinstance(n, ast.Call) and isinstance(n.func, ast.Attribute) and n.func.attr in ("conj", "conjugate") and not n.args:
            rep(n, txt(n.func.value), "drop-conj")
        # .T drop on conj().T
        if isinstance(n, ast.Attribute) and n.attr == "T" and isinstance(n.value, ast.Call) and isinstance(n.value.func, ast.Attribute) and n.value.func.attr == "conj":
            rep(n, txt(n.value), "drop-T")
        # index constants 0 <-> 1 in subscripts
        if isinstance(n, ast.Subscript):
            for c in ast.walk(n.slice):
                if isinstance(c, ast.Constant) and c.value in (0, 1) and not isinstance(c.value, bool):
                    rep(c, str(1 - c.value), "index-01")
        # +1 / -1 removal
        if isinstance(n, ast.BinOp) and isinstance(n.op, (ast.Add, ast.Sub)) and isinstance(n.right, ast.Constant) and n.right.value == 1:
            rep(n, txt(n.left), "drop-pm1")
        # comparison strictness
        if isinstance(n, ast.Compare) and len(n.ops) == 1:
            m = {ast.Lt: "<=", ast.LtE: "<", ast.Gt: ">=", ast.GtE: ">"}
            if type(n.ops[0]) in m:
                rep(n, f"{txt(n.left)} {m[type(n.ops[0])]} {txt(n.comparators[0])}", "cmp-strict")
        # kron / matmul operand swap
        if isinstance(n, ast.Call) and isinstance(n.func, ast.Attribute) and n.func.attr == "kron" and len(n.args) == 2:
            rep(n, f"{txt(n.func)}({txt(n.args[1])}, {txt(n.args[0])})", "swap-kron")
        if isinstance(n, ast.BinOp) and isinstance(n.op, ast.MatMult) and not isinstance(n.left, ast.BinOp):
            rep(n, f"{txt(n.right)} @ {txt(n.left)}", "swap-matmul")
        # keyword swaps
        if isinstance(n, ast.Call):
            kws = {k.arg: k for k in n.keywords if k.arg}
            if "rtol" in kws and "atol" in kws:
                a, b = kws["rtol"], kws["atol"]
                rep(a.value, txt(b.value), "rtol<-atol")
            for k in n.keywords:
                if k.arg == "order" and isinstance(k.value, ast.Constant):
                    rep(k.value, '"C"' if k.value.value == "F" else '"F"', "order")
                if k.arg == "ord" and isinstance(k.value, ast.Constant):
                    rep(k.value, {"nuc": '"fro"', "fro": '"nuc"', 2: "1", 1: "2"}.get(k.value.value, '"fro"'), "ord")
                if k.arg in ("hermitian", "PSD", "symmetric") and isinstance(k.value, ast.Constant) and k.value.value is True and k.arg == "hermitian":
                    a0, b0 = seg(lines, k.value)
                    # hermitian=True -> symmetric=True
                    ka = src.rfind("hermitian", 0, a0)
                    out.append(("herm->sym", k.value.lineno, src[ka:b0], "symmetric=True", ka, b0))
            # positional argument swap for repo-looking calls with >= 2 Name args
            if len(n.args) >= 2 and all(isinstance(a, ast.Name) for a in n.args[:2]) and n.args[0].id != n.args[1].id and isinstance(n.func, ast.Name):
                rep(n.args[0], n.args[1].id, "arg0<-arg1")
        # constraint direction, objective sense
        if isinstance(n, ast.BinOp) and isinstance(n.op, (ast.RShift, ast.LShift)):
            rep(n, f"{txt(n.left)} {'<<' if isinstance(n.op, ast.RShift) else '>>'} {txt(n.right)}", "lmi-dir")
        if isinstance(n, ast.Attribute) and n.attr in ("Maximize", "Minimize"):
            rep(n, txt(n).replace(n.attr, "Minimize" if n.attr == "Maximize" else "Maximize"), "sense")
        if isinstance(n, ast.Constant) and n.value in ("max", "min") and isinstance(n.value, str):
            rep(n, '"min"' if n.value == "max" else '"max"', "sense-str")
        # range shrink
        if isinstance(n, ast.Call) and isinstance(n.func, ast.Name) and n.func.id == "range" and len(n.args) == 1:
            rep(n, f"range(1, {txt(n.args[0])})", "range-from1")
        # numeric constants 2 -> 3, 0.5 -> 0.25
        if isinstance(n, ast.Constant) and n.value == 2 and not isinstance(n.value, bool):
            rep(n, "3", "const-2-3")
        # statement deletion (simple statements inside the function body, not the last return)
        if isinstance(n, (ast.Expr, ast.Assign, ast.AugAssign)) and not (isinstance(n, ast.Expr) and isinstance(n.value, ast.Constant)):
            a, b = seg(lines, n)
            out.append(("del-stmt", n.lineno, src[a:b], "pass", a, b))
        # boolean operator swap
        if isinstance(n, ast.BoolOp):
            a, b = seg(lines, n)
            s_ = src[a:b]
            s2 = re.sub(r"\bor\b", "§", s_)
            s2 = re.sub(r"\band\b", "or", s2).replace("§", "and")
            if s2 != s_:
                out.append(("bool-op", n.lineno, s_, s2, a, b))
        # not removal
        if isinstance(n, ast.UnaryOp) and isinstance(n.op, ast.Not):
            rep(n, txt(n.operand), "drop-not")
    # unique by (a, b, new)
    seen, uniq = set(), []
    for m_ in out:
        k = (m_[4], m_[5], m_[3])
        if k not in seen and m_[2] != m_[3]:
            seen.add(k)
            uniq.append(m_)
    return uniq


def one(args):
    pid, rel, kind, line, old, new, a, b, base = args
    src = open(os.path.join(REPO, rel), encoding="utf-8").read()
    text = src[:a] + new + src[b:]
    try:
        ast.parse(text)
    except SyntaxError:
        return None
    try:
        ctx = run_property(pid, "quick", RepoModel(overrides={rel: text}))
    except Exception as exc:  # noqa: BLE001
        return (rel, kind, line, old, new, a, b, "analysis-error", str(exc)[:80])
    viol = [o.key for o in ctx.obs if o.status == "violated" and o.key not in base]
    lost = lost_confirmed(ctx, load_floors().get(pid, {}))
    st = "VIOLATION" if viol else ("exit2" if (lost or ctx.crashed) else "missed")
    return (rel, kind, line, old, new, a, b, st, (viol or lost or [""])[0])


def test_files(rel):
    d, f = os.path.split(rel)
    cand = os.path.join(d, "tests", "test_" + f)
    out = [cand] if os.path.exists(os.path.join(REPO, cand)) else []
    return out


def main():
    ap = argparse.ArgumentParser()
    ap.add_argument("prop")
    ap.add_argument("--limit", type=int, default=100000)
    ap.add_argument("--tests", action="store_true")
    ap.add_argument("--only", default=None, help="substring of the file path")
    ap.add_argument("--all-files", action="store_true", help="also mutate analysed functions outside the property's anchor files")
    args = ap.parse_args()
    pid = args.prop
    m = RepoModel()
    ctx = run_property(pid, "quick", m)
    base = {o.key for o in ctx.obs if o.status == "violated"}
    jobs = []
    files = {}
    anchors = set()
    for l in open("/verif/properties.jsonl"):
        pr = json.loads(l)
        if pr["id"] == pid:
            anchors = set(pr["anchors"]["files"])
    for q in sorted(ctx.analysed_functions):
        f = m.functions.get(q)
        if f is None or f.parent is not None or (args.only and args.only not in f.file) or (not args.all_files and not (f.file in anchors or any(a.endswith('/') and f.file.startswith(a) for a in anchors))):
            continue
        src = files.setdefault(f.file, open(os.path.join(REPO, f.file), encoding="utf-8").read())
        raw = ast.parse(src)
        fn = next((n for n in ast.walk(raw) if isinstance(n, (ast.FunctionDef, ast.AsyncFunctionDef)) and n.lineno == f.node.lineno and n.name == f.node.name), None)
        if fn is None:
            continue
        # skip the docstring
        body_start = fn.body[1].lineno if (fn.body and isinstance(fn.body[0], ast.Expr) and isinstance(fn.body[0].value, ast.Constant) and len(fn.body) > 1) else fn.body[0].lineno
        for kind, line, old, new, a, b in mutants(fn, src):
            if line < body_start:
                continue
            jobs.append((pid, f.file, kind, line, old, new, a, b, base))
    jobs = jobs[: args.limit]
    with ProcessPoolExecutor(max_workers=16) as ex:
        res = [r for r in ex.map(one, jobs, chunksize=8) if r]
    by = {}
    for r in res:
        by.setdefault(r[7], []).append(r)
    print(pid, {k: len(v) for k, v in by.items()}, "of", len(res), "mutants")
    missed = by.get("missed", [])
    survivors = []
    if args.tests and missed:
        NW = 8
        for k in range(NW):
            wt = f"/tmp/wt/MUT{k}"
            if not os.path.isdir(wt):
                subprocess.run(f"git -C {REPO} worktree add -q --detach {wt}", shell=True, check=True)
            subprocess.run(f"git -C {wt} checkout -q -- . && git -C {wt} checkout -q --detach $(git -C {REPO} rev-parse HEAD)", shell=True)
        from concurrent.futures import ThreadPoolExecutor
        import queue
        pool = queue.Queue()
        for k in range(NW):
            pool.put(f"/tmp/wt/MUT{k}")

        def run_tests(r):
            rel, kind, line, old, new, a, b = r[:7]
            tfs = test_files(rel)
            if not tfs:
                return (r, "no test file")
            wt = pool.get()
            try:
                path = os.path.join(wt, rel)
                orig = open(path, encoding="utf-8").read()
                open(path, "w", encoding="utf-8").write(orig[:a] + new + orig[b:])
                try:
                    t = subprocess.run(f"cd {wt} && PYTHONPATH={wt} timeout 300 /venv/bin/python -m pytest -x -q -p no:cacheprovider " + " ".join(tfs), shell=True, capture_output=True, text=True, timeout=320)
                    rc = t.returncode
                except subprocess.TimeoutExpired:
                    rc = 124
                open(path, "w", encoding="utf-8").write(orig)
                return (r, "tests pass") if rc == 0 else None
            finally:
                pool.put(wt)
        with ThreadPoolExecutor(max_workers=NW) as tp:
            survivors = [x for x in tp.map(run_tests, missed) if x]
    else:
        survivors = [(r, "") for r in missed]
    for r, why in survivors:
        srcl = open(os.path.join(REPO, r[0]), encoding="utf-8").read().split("\n")[r[2] - 1].strip()
        print(f"  {why or 'missed'}: {r[0]}:{r[2]} [{r[1]}] `{r[3][:40]}` -> `{r[4][:40]}`   | {srcl[:110]}")
    json.dump([list(map(str, r[:5])) + [w] for r, w in survivors], open(f"/tmp/mut_{pid}.json", "w"), indent=0)


if __name__ == "__main__":
    main()
