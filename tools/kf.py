#!/venv/bin/python
"""kf.py add <property> <status known|fixed> <rule> <function> <construct> <commit|-> <witness text>"""
import json, sys, os
p = os.path.join(os.path.dirname(os.path.dirname(os.path.abspath(__file__))), "known_findings.json")
d = json.load(open(p))
_, cmd, prop, status, rule, func, construct, commit, witness = sys.argv[:9]
e = {"property": prop, "status": status, "rule": rule, "function": func, "construct": construct, "witness": witness}
if commit != "-":
    e["commit"] = commit
    e["text"] = f"fixed: property={prop} {commit} {witness}"
d["findings"] = [x for x in d["findings"] if not (x["property"] == prop and x["rule"] == rule and x["function"] == func and x["construct"] == construct)]
d["findings"].append(e)
json.dump(d, open(p, "w"), indent=1)
print("recorded", e["property"], e["status"], e["construct"])
