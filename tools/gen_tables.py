#!/venv/bin/python
"""Writes engine/props/tables/*.json: literal data tables of the confirmed tree that no structural rule can re-derive (today: the 6x6
table of Pluecker-coordinate expressions of the 3x3 rank-4 separability criterion in is_separable).  Entries are normalised terms, so
renames and formatting do not matter; a changed entry is reported by C15 with its (row, column)."""
import ast, json, os, sys
sys.path.insert(0, os.path.dirname(os.path.dirname(os.path.abspath(__file__))))
from engine.model import RepoModel, walk_no_nested
from engine.norm import Normalizer
m = RepoModel()
f = m.func("is_separable.is_separable")
N = Normalizer(m, f, inline=False)
tab = None
for n in walk_no_nested(f.node):
    if isinstance(n, ast.Call) and getattr(n.func, "attr", "") == "det" and n.args and isinstance(n.args[0], ast.Call) and n.args[0].args and isinstance(n.args[0].args[0], ast.List):
        rows = n.args[0].args[0].elts
        if len(rows) == 6 and all(isinstance(r, ast.List) and len(r.elts) == 6 for r in rows):
            tab = [[repr(N(e)) for e in r.elts] for r in rows]
out = os.path.join(os.path.dirname(os.path.dirname(os.path.abspath(__file__))), "engine", "props", "tables", "plucker_3x3.json")
json.dump({"source": "toqito/state_props/is_separable.py, rank-4 3x3 criterion (Chen & Djokovic)", "rows": tab}, open(out, "w"), indent=0)
print("rows", len(tab) if tab else None)
