import json, sys
from engine.main import run_property
pid = sys.argv[1]
flt = sys.argv[2] if len(sys.argv) > 2 else "nd"
ctx = run_property(pid, "quick")
for o in ctx.obs:
    if flt == "all" or o.status != "discharged":
        print(o.status[:4], o.rule, o.function, "|", o.construct, "|", o.detail[:160], f"[{o.file.split('/')[-1]}:{o.line}]")
print(len(ctx.obs), "obligations")
