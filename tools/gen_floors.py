#!/venv/bin/python
"""Writes floors.json: per property the minimum number of decided (non-unknown) obligations, 70% of what the committed
tree yields today, plus the list of obligations confirmed (discharged) on it.  A confirmed obligation that a later tree turns into
`unknown` (the construct is still there but no longer in a shape the checker recognises) also ends the run with exit 2.  Below the floor the run ends with ANALYSIS-ERROR / exit 2 (the analysis no longer applies)."""
import json, os, sys
sys.path.insert(0, os.path.dirname(os.path.dirname(os.path.abspath(__file__))))
from engine.main import run_property
from engine.model import RepoModel
m = RepoModel()
out = {}
for i in range(1, 21):
    pid = f"C{i:02d}"
    ctx = run_property(pid, "quick", m)
    ck = getattr(ctx, "closure_keys", set())
    decided = sum(1 for o in ctx.obs if o.status != "unknown" and o.key not in ck)  # the property's own obligations only
    out[pid] = {"min_decided": int(decided * 0.7), "decided_at_commit": decided, "obligations_at_commit": len(ctx.obs),
                "confirmed": sorted([list(o.key) for o in ctx.obs if o.status == "discharged" and o.key not in getattr(ctx, "closure_keys", set())])}
json.dump(out, open(os.path.join(os.path.dirname(os.path.dirname(os.path.abspath(__file__))), "floors.json"), "w"), indent=1)
print({k: v["min_decided"] for k, v in out.items()})
