#!/bin/sh
# recheck_refactors.sh : apply every behaviour-preserving refactor kept under /verif/refactors/<ID>-<x>/patch.diff to /repo (git apply), run the 20 quick checks,
# restore /repo (git checkout -- .).  Expected: no check exits 1 (a VIOLATION on a behaviour-preserving edit is a false alarm); exit 2 (undecided) is allowed.
cd /verif
fail=0
for d in refactors/C*-*; do
  [ -f $d/patch.diff ] || continue
  git -C /repo apply /verif/$d/patch.diff 2>/dev/null || { echo "$d: does not apply to the current /repo"; continue; }
  res=""
  for i in 01 02 03 04 05 06 07 08 09 10 11 12 13 14 15 16 17 18 19 20; do ( ./check C$i > /tmp/.rr_$i.log 2>&1; echo $? > /tmp/.rr_$i.rc ) & done; wait
  git -C /repo checkout -q -- .
  for i in 01 02 03 04 05 06 07 08 09 10 11 12 13 14 15 16 17 18 19 20; do rc=$(cat /tmp/.rr_$i.rc); [ "$rc" != "0" ] && res="$res C$i(rc=$rc)"; [ "$rc" = "1" ] && fail=1; done
  echo "$d:${res:- silent}"
done
rm -f /tmp/.rr_*; sh tools/all_checks.sh > /dev/null 2>&1
[ $fail = 0 ] && echo "no false alarm" || echo "FALSE ALARM(S) above"
