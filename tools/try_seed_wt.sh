#!/bin/sh
# try_seed_wt.sh <worktree> <patch.diff> [ids...] : like try_seed.sh but on a scratch worktree through VERIF_REPO (used only while /repo is busy)
wt="$1"; patch="$2"; shift; shift
ids="$@"
[ -z "$ids" ] && ids="C01 C02 C03 C04 C05 C06 C07 C08 C09 C10 C11 C12 C13 C14 C15 C16 C17 C18 C19 C20"
git -C "$wt" checkout -q -- . ; git -C "$wt" apply "$patch" || { echo "patch does not apply"; exit 3; }
cd /verif
for id in $ids; do
  out=$(VERIF_REPO="$wt" ./check $id 2>&1); rc=$?
  if [ $rc -ne 0 ]; then echo "$id exit=$rc"; echo "$out" | grep -E "^  R-|ANALYSIS-ERROR" | cut -c1-260; fi
done
git -C "$wt" checkout -q -- .
for id in $ids; do ./check $id >/dev/null 2>&1; done
echo "done"
