#!/venv/bin/python
"""equiv_fuzz.py [IDs...] : run the behaviour-preserving-rewrite self-test of engine/equivfuzz.py (all properties by default)."""
import os, sys
sys.path.insert(0, os.path.dirname(os.path.dirname(os.path.abspath(__file__))))
from engine import equivfuzz
ids = [a for a in sys.argv[1:] if a.startswith("C")] or [f"C{i:02d}" for i in range(1, 21)]
kinds = equivfuzz.MUTATORS
if "--kinds" in sys.argv:
    kinds = tuple(sys.argv[sys.argv.index("--kinds") + 1].split(","))
tot = bad = 0
for pid in ids:
    r = equivfuzz.run_for(pid, kinds=kinds)
    tot += r["mutants"]; bad += len(r["failed"])
    print(pid, r["mutants"], "mutants", r.get("by_kind"), len(r["failed"]), "failed")
    for f in r["failed"]:
        print("   ", f[:330])
print(tot, "mutants,", bad, "failed")
