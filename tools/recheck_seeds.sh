#!/bin/sh
# recheck_seeds.sh : apply every kept seeded change to /repo in turn (git apply), run all 20 quick checks, undo it straight away (git checkout -- .),
# and record in seeded/<id>/meta.json which checks report it.  /repo must be clean before and is clean after.
cd /verif
[ -n "$(git -C /repo status --porcelain)" ] && { echo "/repo is not clean"; exit 3; }
sel="$@"
for d in seeded/*/; do
  if [ -n "$sel" ]; then case " $sel " in *" $(basename $d) "*) ;; *) continue;; esac; fi
  id=$(basename $d); prop=${id%-*}
  if ! git -C /repo apply --check "$PWD/$d/patch.diff" 2>/dev/null; then echo "$id: patch does not apply to /repo HEAD"; continue; fi
  git -C /repo apply "$PWD/$d/patch.diff"
  caught=""; lines=""
  tmp=$(mktemp -d)
  for i in 01 02 03 04 05 06 07 08 09 10 11 12 13 14 15 16 17 18 19 20; do
    ( ./check C$i > $tmp/C$i.log 2>&1; echo $? > $tmp/C$i.rc ) &
  done
  wait
  for i in 01 02 03 04 05 06 07 08 09 10 11 12 13 14 15 16 17 18 19 20; do
    rc=$(cat $tmp/C$i.rc)
    if [ "$rc" != "0" ]; then caught="$caught C$i(rc=$rc)"; fi
  done
  rm -rf $tmp
  git -C /repo checkout -q -- .
  echo "$id: caught by:$caught"
  /venv/bin/python - "$d/meta.json" "$caught" "$(git -C /repo rev-parse --short HEAD)" <<'PY'
import json, sys, time
p, caught, head = sys.argv[1:4]
m = json.load(open(p))
m["rechecked"] = {"repo_head": head, "date": time.strftime("%Y-%m-%d"), "how": "git -C /repo apply; ./check C01..C20; git -C /repo checkout -- .",
                  "caught_by": caught.split(), "caught_by_own_property": any(c.startswith(m["property"] + "(rc=1)") for c in caught.split())}
json.dump(m, open(p, "w"), indent=1)
PY
done
for i in 01 02 03 04 05 06 07 08 09 10 11 12 13 14 15 16 17 18 19 20; do ./check C$i >/dev/null 2>&1 & done; wait
git -C /repo status --porcelain
