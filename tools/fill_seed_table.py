#!/venv/bin/python
"""Refresh the seeded-change table of DESIGN.md section 11 (between the seed-table markers) from seeded/*/meta.json."""
import re, subprocess
tab = subprocess.run(["/venv/bin/python", "/verif/tools/seed_table.py"], capture_output=True, text=True).stdout.strip()
p = "/verif/DESIGN.md"
s = open(p).read()
blk = f"<!-- seed-table:begin -->\n{tab}\n<!-- seed-table:end -->"
if "SEED_TABLE_PLACEHOLDER" in s:
    s = s.replace("SEED_TABLE_PLACEHOLDER", blk)
else:
    s = re.sub(r"<!-- seed-table:begin -->.*?<!-- seed-table:end -->", lambda m: blk, s, flags=re.S)
open(p, "w").write(s)
print(tab.count("\n") - 1, "rows")
