#!/venv/bin/python
"""rename_fuzz.py [IDs...] : run the rename-robustness self-test of engine/renamefuzz.py for the given properties (all by default)."""
import os, sys
sys.path.insert(0, os.path.dirname(os.path.dirname(os.path.abspath(__file__))))
from engine import renamefuzz
ids = sys.argv[1:] or [f"C{i:02d}" for i in range(1, 21)]
tot = bad = 0
for pid in ids:
    r = renamefuzz.run_for(pid)
    tot += r["renames"]; bad += len(r["failed"])
    print(pid, r["renames"], "renames,", len(r["failed"]), "failed")
    for f in r["failed"]:
        print("   ", f)
print(tot, "renames,", bad, "failed")
