#!/venv/bin/python
"""seed_table.py : markdown table of the kept seeded changes (seeded/*/meta.json) for DESIGN.md section 11."""
import glob, json, os, re
rows = []
for p in sorted(glob.glob("/verif/seeded/*/meta.json")):
    m = json.load(open(p))
    d = os.path.dirname(p)
    notes = open(os.path.join(d, "notes.md"), errors="replace").read() if os.path.exists(os.path.join(d, "notes.md")) else ""
    title = next((ln.strip("# ").strip() for ln in notes.splitlines() if ln.strip()), "")
    title = re.sub(r"^C\d\d\s*(seed)?\s*[/ ]?\s*[a-l]\s*[-–—:]+\s*", "", title)[:150].replace("|", "\\|")
    rc = m.get("rechecked", {})
    own = [l for l in m.get("checks_on_patched_tree", {}).get(m["property"], {}).get("lines", [])]
    rules = sorted({l.split()[0] for l in own if l.startswith("R-")})
    caught = " ".join(c.split("(")[0] + (" (exit 2: undecided, not reported as a violation)" if "rc=2" in c else "") for c in rc.get("caught_by", [])) or ",".join(m.get("checks_on_patched_tree", {}))
    rows.append(f"| {m['property']}/{m['seed']} | {', '.join(os.path.basename(f) for f in m['files'])} | {title} | {caught or 'NOT CAUGHT'} | {', '.join(rules)} |")
print("| seed | file(s) | change (from the author's notes) | checks that report it | rules |")
print("|---|---|---|---|---|")
print("\n".join(rows))
