#!/venv/bin/python
"""Regenerates MANIFEST.json from the table below + which engine/props/<ID>.py exist."""
import json, os
HERE = os.path.dirname(os.path.dirname(os.path.abspath(__file__)))
props = [json.loads(l) for l in open(os.path.join(HERE, "properties.jsonl"))]
TECH = {
 "C01": "ast-based sibling-branch agreement (argsort), layout (order=F<=>reversed dims), option threading, index-base and alias/effect analysis over permute_systems/swap/operators",
 "C02": "unordered-iteration-into-permutation rule, symbolic reshape/transpose factorisation, option threading, index-base typing of all partial_trace call sites, alias/effect analysis",
}
NOTE = ("Decides the structural clauses listed in DESIGN.md section 4 for this property (necessary conditions visible in the "
        "shape of the code: conventions, threading, guards, aliasing, problem skeletons). The numerical identities of the "
        "statement are NOT decided by this technique. Trusted base: CPython ast, the engine's library catalogue, the frozen instance tables.")
checks = []
na = []
for p in props:
    pid = p["id"]
    if os.path.exists(os.path.join(HERE, "engine", "props", pid + ".py")):
        checks.append({
            "property_id": pid,
            "quick_cmd": f"./check {pid} --tier quick",
            "thorough_cmd": f"./check {pid} --tier thorough",
            "evidence_file": f"/verif/evidence/{pid}.json",
            "replay_cmd_template": f"./check {pid} --replay {{path}}",
            "engine": "toqito-static",
            "level_claimed": {"category": "other",
                              "text": "Static analysis over every path/call site of the anchored code: each obligation is a necessary "
                                      "condition of the property, decided from the syntax tree, a structured must-flow, resolved call "
                                      "graph and small abstract domains; a violated obligation names the construct. No execution.",
                              "design_ref": f"DESIGN.md section 4 ({pid})"},
            "level_note": NOTE,
            "technique": "static analysis: " + TECH.get(pid, "custom ast/dataflow rules specific to the anchored functions"),
        })
    else:
        na.append({"property_id": pid, "reason": "check not built yet in this session (static clauses planned in DESIGN.md section 4); not claimed until the checker exists"})
man = {
 "version": 1,
 "setup_cmd": "cd /verif && /venv/bin/python -c \"import sys; sys.path.insert(0,'.'); import engine.main, engine.selftest; print('engine ok')\"",
 "hooks": {"guard": "TOQITO_VERIF", "enable": "none needed: the checks read source only; no instrumentation exists in /repo",
           "baseline_off_cmd": "cd /repo && /venv/bin/python -m pytest -ra -q -p no:cacheprovider --timeout=900 --continue-on-collection-errors",
           "source_commits": [], "add_only": True},
 "engines": [{"name": "toqito-static", "path": "/verif/engine", "serves_properties": [c["property_id"] for c in checks],
              "kind_free_text": "pure-stdlib ast analyses: RepoModel (import-accurate name resolution, call binding), expression normaliser, structured must-flow, def-use origins, flow-sensitive alias/effect analysis, per-property rule tables"}],
 "checks": checks,
 "not_applicable": na,
 "notes": "All checks are static (ast only); see DESIGN.md. known_findings.json lists genuine defects recorded rather than repaired.",
}
extra = os.path.join(HERE, "tools", "manifest_extra.json")
if os.path.exists(extra):
    ex = json.load(open(extra))
    man["hooks"]["source_commits"] = ex.get("source_commits", [])
    for c in man["checks"]:
        if c["property_id"] in ex.get("technique", {}):
            c["technique"] = "static analysis: " + ex["technique"][c["property_id"]]
    nar = ex.get("not_applicable", {})
    for n in man["not_applicable"]:
        if n["property_id"] in nar:
            n["reason"] = nar[n["property_id"]]
json.dump(man, open(os.path.join(HERE, "MANIFEST.json"), "w"), indent=1)
print("checks:", [c["property_id"] for c in checks], "n/a:", len(na))
