#!/venv/bin/python
"""Regenerates MANIFEST.json from the table below + which engine/props/<ID>.py exist."""
import json, os
HERE = os.path.dirname(os.path.dirname(os.path.abspath(__file__)))
props = [json.loads(l) for l in open(os.path.join(HERE, "properties.jsonl"))]
TECH = {
 "C01": "ast sibling-branch agreement (inverse axes == argsort of forward axes), layout rule (reversed dims <=> order=F, reversal-conjugate axes), option threading / literal-flag binding, index-base typing, flow-sensitive alias/effect analysis",
 "C02": "unordered-iteration-into-permutation rule, symbolic reshape/transpose factorisation in monomial normal form, kept-first/layout agreement, index-base typing of every partial_trace call site, alias/effect analysis",
 "C03": "permute/un-permute pairing (same perm, inverse flag, flipped+permuted dims), axis-exchange check against selected-subsystem extents, realignment data-chain and crossed-dims tables",
 "C04": "truth-table equivalence of the Kraus-list classifiers, dagger discipline via expression normal forms, role binding of channel_dim results, 1-based partition slices, decomposition conventions (columns of V, rows of vh conjugated)",
 "C05": "normal-form check that every dual Kraus element is Dagger of the input element, role-typed swap dims, dominance of the completeness guard, index coverage of the complementary construction",
 "C06": "predicate-algebra skeletons over named sub-predicates, tolerance-role forwarding, representation-dispatch rule, interval interpretation of raising guards with dominance, Kraus sandwich normal forms, declared-kind analysis",
 "C07": "mixed-radix decoder capacity vs loop bound, array layout/role tracking through transposes, answer-depends-on-question rule, class-wide effect analysis, cvxpy problem skeletons (POVM families, marginal families, NPA families)",
 "C08": "XOR-to-general conversion box coverage, Tsirelson dual SDP skeleton, threading of reps/prob, linear-in-m range check of 1-based swap indices, PPT-partition base consistency, NPA families",
 "C09": "strategy-dependence rule (answer loops vs question loops), Hermitian-declared-square rule, symbolic shape agreement of see-saw operators, mirror-program comparison (max/min, primal/dual), NPA families",
 "C10": "picos problem skeletons: POVM cone + completeness, dual inequality direction and index pairing over enumerate, read-back order, dispatch by path condition, solver/kwargs threading",
 "C11": "mirror of C10 (constraint-set equality with the discrimination primal, opposite senses, reversed dual inequality), unambiguous-exclusion families, unit-weight delegation",
 "C12": "alias/effect analysis on the caller's state list, PPT constraint family with threaded bipartition, per-state hierarchy families, level threading by def-use, read-back order",
 "C13": "unitary-covariance typing (Inv/Cov/Conj/Basis abstract domain with interprocedural summaries), Schatten-class typing of norm calls, predicate-guard dominance, closed-form comparison over a vocabulary of invariants",
 "C14": "layout rule for Schmidt reshapes, abstract execution of the int path of declared int|list parameters, Schatten class of the negativity family, sibling prologue agreement, monotone-bound discipline of the S(k) routine",
 "C15": "verdict governance (dominance of the PPT test over separable verdicts; control dependence of entangled verdicts on one-sided criteria), tolerance-role binding, threading, symbolic shapes of reduced states, certain-TypeError detection",
 "C16": "tolerance forwarding, predicate skeletons, squareness-guard dominance, covariance typing with positive control, vec/unvec/commutant/tensor layout agreement",
 "C17": "affine index-coverage of coefficient lists, interval guards, exhaustive index matches falling through to raise, projector normal forms, closed-form weights",
 "C18": "index-base typing (0-based permutations vs 1-based perm_sign), decomposition-tuple misuse, enumeration family / normaliser agreement, sibling partial branches, counter pairing in the recursive enumerators",
 "C19": "RNG discipline over the call-graph closure with a positive control, seed/is_real threading with control dependence, symbolic shape evaluation, list-extent kind rule, measurement normal forms",
 "C20": "dimension algebra in monomial normal form (dims product vs operand size), Schatten class of the CP shortcut, delegation skeletons, Watrous and channel-fidelity problem skeletons",
}
NOTE = ("Decides the structural clauses listed in DESIGN.md section 4 for this property (necessary conditions visible in the "
        "shape of the code: conventions, threading, guards, aliasing, problem skeletons). The numerical identities of the "
        "statement are NOT decided by this technique. Trusted base: CPython ast, the engine's library catalogue, the frozen instance tables.")
checks = []
na = []
for p in props:
    pid = p["id"]
    if os.path.exists(os.path.join(HERE, "engine", "props", pid + ".py")):
        checks.append({
            "property_id": pid,
            "quick_cmd": f"./check {pid} --tier quick",
            "thorough_cmd": f"./check {pid} --tier thorough",
            "evidence_file": f"/verif/evidence/{pid}.json",
            "replay_cmd_template": f"./check {pid} --replay {{path}}",
            "engine": "toqito-static",
            "level_claimed": {"category": "other",
                              "text": "Static analysis over every path/call site of the anchored code: each obligation is a necessary "
                                      "condition of the property, decided from the syntax tree, a structured must-flow, resolved call "
                                      "graph and small abstract domains; a violated obligation names the construct. No execution.",
                              "design_ref": f"DESIGN.md section 4 ({pid})"},
            "level_note": NOTE,
            "technique": "static analysis: " + TECH.get(pid, "custom ast/dataflow rules specific to the anchored functions"),
        })
    else:
        na.append({"property_id": pid, "reason": "check not built yet in this session (static clauses planned in DESIGN.md section 4); not claimed until the checker exists"})
man = {
 "version": 1,
 "setup_cmd": "cd /verif && /venv/bin/python -c \"import sys; sys.path.insert(0,'.'); import engine.main, engine.selftest; print('engine ok')\"",
 "hooks": {"guard": "TOQITO_VERIF", "enable": "none needed: the checks read source only; no instrumentation exists in /repo",
           "baseline_off_cmd": "cd /repo && /venv/bin/python -m pytest -ra -q -p no:cacheprovider --timeout=900 --continue-on-collection-errors",
           "source_commits": [], "add_only": True},
 "engines": [{"name": "toqito-static", "path": "/verif/engine", "serves_properties": [c["property_id"] for c in checks],
              "kind_free_text": "pure-stdlib ast analyses: RepoModel (import-accurate name resolution, call binding), expression normaliser, structured must-flow, def-use origins, flow-sensitive alias/effect analysis, per-property rule tables"}],
 "checks": checks,
 "not_applicable": na,
 "notes": "All checks are static (ast only); see DESIGN.md. known_findings.json lists genuine defects recorded rather than repaired.",
}
extra = os.path.join(HERE, "tools", "manifest_extra.json")
if os.path.exists(extra):
    ex = json.load(open(extra))
    man["hooks"]["source_commits"] = ex.get("source_commits", [])
    for c in man["checks"]:
        if c["property_id"] in ex.get("technique", {}):
            c["technique"] = "static analysis: " + ex["technique"][c["property_id"]]
    nar = ex.get("not_applicable", {})
    for n in man["not_applicable"]:
        if n["property_id"] in nar:
            n["reason"] = nar[n["property_id"]]
json.dump(man, open(os.path.join(HERE, "MANIFEST.json"), "w"), indent=1)
print("checks:", [c["property_id"] for c in checks], "n/a:", len(na))
